#!/bin/bash
# usage: try_seed.sh seeded/<ID> <PROPERTY>...   -- apply the seeded change to /repo, run the checks, undo
D=$(realpath "$1"); shift
cd /repo || exit 2
if ! git apply --3way "$D/patch.diff" 2>/tmp/try_seed.err; then echo "PATCH DOES NOT APPLY"; cat /tmp/try_seed.err; git checkout -- . ; exit 2; fi
git reset -q 2>/dev/null
cd /verif
for p in "$@"; do ./check $p; echo "exit=$?"; done
git -C /repo checkout -- .
git -C /repo status --short
