#!/bin/bash
# usage: try_seed.sh seeded/<ID> <PROPERTY>...   -- apply the seeded change to /repo, run the checks, undo
D=$(realpath "$1"); shift
cd /repo || exit 2
if ! git apply --3way "$D/patch.diff" 2>/tmp/try_seed.err; then echo "PATCH DOES NOT APPLY"; cat /tmp/try_seed.err; git checkout -- . ; exit 2; fi
git reset -q 2>/dev/null
cd /verif
# evidence written while a seeded change is applied must not replace the evidence of the unchanged tree
rm -rf /tmp/try_seed_evidence; cp -r /verif/evidence /tmp/try_seed_evidence
for p in "$@"; do ./check $p; echo "exit=$?"; done
mkdir -p /verif/seeded/.runs; for p in "$@"; do cp /verif/evidence/$p.json /verif/seeded/.runs/$(basename $D)-$p.json 2>/dev/null; done
rm -rf /verif/evidence; mv /tmp/try_seed_evidence /verif/evidence
git -C /repo checkout -- .
git -C /repo status --short
