#!/bin/bash
cd /repo; git diff > /tmp/dd.diff; [ -s /tmp/dd.diff ] && git apply -R /tmp/dd.diff
(cd /verif/replay && cargo build --offline -q 2>/dev/null); echo -n "before: "; /verif/replay/target/debug/pocket-replay db_script "$1"
cd /repo; [ -s /tmp/dd.diff ] && git apply /tmp/dd.diff
(cd /verif/replay && cargo build --offline -q 2>/dev/null); echo -n "after:  "; /verif/replay/target/debug/pocket-replay db_script "$1"
