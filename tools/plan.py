"""Which units / Kani groups decide which property (DESIGN.md section 4)."""

STANDING_ASSUMPTIONS = [
    'Verus 0.2026.09.13 + bundled Z3, rustc 1.98.1 are sound',
    'target is 64-bit little-endian (usize = 8 bytes; from_ne_bytes/to_ne_bytes are little-endian)',
    'a Rust slice never spans more than isize::MAX bytes (axiom_slice_max)',
    'error values are unspecified: contracts only distinguish Ok from Err',
    'stack depth is not modelled (recursive burn_value family)',
    'AsRef::as_ref on the generic part lists of Tags::from_parts is a function of its receiver, and the parts fit in the address space (prelude/asref.rs)',
    'extraction rewrites R1..R35 (DESIGN.md 2.3 and 8.2) preserve semantics; each application is listed under coverage.rewrites',
]

PROPERTIES = {
    'C16': {
        'units': ['rebuild', 'index', 'keys', 'map'],
        'sample_functions': ['Store::rebuild#copy_events', 'Store::rebuild#copy_deleted_ids', 'Store::rebuild#copy_deleted_naddrs', 'Lmdb::dump_naddr_deleted', 'Lmdb::dump_deleted', 'Lmdb::key_naddr_index', 'Lmdb::mark_naddr_deleted', 'Lmdb::index'],
        'not_decided': ['Store::rebuild as a whole (file renames, chown, reopen, the marker and extra-table copy loops) is not under contract; its three copy loops are (unit rebuild, statement ranges: events by id, deleted ids, deleted addresses); also proved is what the other loops rely on: every deletion marker is dumped once and re-encodes to exactly its key and time (so re-marking reproduces the tables), deleted ids likewise, index(event, offset) adds exactly keys_of(event) (so re-indexing reproduces an event\'s entries), and EventStore::store_event appends only the event bytes plus alignment padding',
                        'close-and-reopen is the persistence assumption of the trusted LMDB / mmap contracts'],
    },
    'C07': {
        'units': ['filter_parse', 'from_json', 'filter_json', 'lex', 'hexread', 'escape', 'hexwrite'],
        'sample_functions': ['parse_json_filter', 'Filter::from_json', 'Filter::as_json', 'json_unescape', 'read_u64', 'read_id'],
        'not_decided': ['completeness at the entry point (every filter text is ACCEPTED when the buffer is large enough) is proved leaf by leaf but not composed for parse_json_filter',
                        'order independence is a corollary of faithfulness to the order-insensitive scan for the values of ids, authors, kinds, since, until and limit; the ORDER of tag constraints in the binary follows the order of the "#L" members in the text (the spec says so too), so two texts that differ in the order of their "#L" members yield filters that are equal as sets of constraints but not byte-identical',
                        'the lemma jfilter(filter_json(v)) == v (byte-identical re-parse) is not stated; proved is Filter::as_json == filter_json(view): members in fixed order, comma separated, values JSON-escaped',
                        'member keys are recognised by their raw bytes (as in C01)'],
    },

    'C01': {
        'units': ['utf8', 'escape', 'lex', 'hexread', 'tagsjson', 'event_parse', 'from_json', 'event'],
        'kani': ['leaf'], 'kani_quick': ['leaf'],
        'sample_functions': ['parse_json_event', 'Event::from_json', 'json_unescape', 'read_tags_array', 'read_tag', 'read_content', 'burn_value', 'read_u64', 'read_id'],
        'not_decided': ['completeness at the entry point (every event text is ACCEPTED when the buffer is large enough) is proved leaf by leaf (json_unescape, read_content, integers, hex members, the burn_* skippers) but not composed for parse_json_event: count_tags and the 204-byte minimum are not related to the grammar',
                        'member keys are recognised by their raw bytes: a key written with escapes (e.g. "\\u0069d") is treated as an unknown member; the spec jevent does the same, so this deviation from an unescaping parser is outside what is proved',
                        'the independent parser is the spec spec/jevent.rs + jtags.rs + unescape.rs + jvalue.rs (written from RFC 8259 / NIP-01): its own adequacy is by reading; \\u escapes naming surrogates are outside it, as in the property'],
    },

    'C02': {
        'units': ['utf8', 'escape', 'reparse', 'event', 'event_json', 'tags_json', 'event_parse', 'hexwrite'],
        'kani': ['leaf'], 'kani_quick': ['leaf'],
        'sample_functions': ['Event::as_json', 'Tags::as_json', 'json_escape', 'Event::from_parts', 'Id::write_hex'],
        'not_decided': ['the re-parse lemma jevent(event_json(view)) == view as a statement over the two specs, and byte-identity of the re-parsed event (needs completeness at the entry point and canonicity of the parser output), are not stated; proved: the round trips at the leaves (unit reparse: unescaping an escaped string returns it; reading back a written number returns it; hex likewise), a successfully parsed event satisfies the precondition of as_json (its strings are renderable), parse_json_event is faithful to the object scan jevent, Event::as_json == event_json(view) (member order, hex, decimal, NIP-01 escaping) with Tags::as_json == tags_json(view), json_escape == the NIP-01 escape function for every escapable string, from_parts == canonical packing whatever the buffer held, the JSON path zeroes the padding bytes and returns a well-formed event',
                        'that event_json(view) is accepted by an independent JSON parser is a statement about that parser; the text is given as an explicit spec function to compare against'],
    },
    'C08': {
        'units': ['verify', 'sign', 'utf8', 'escape', 'tags_json', 'hexwrite'],
        'kani': ['leaf'], 'kani_quick': ['leaf'],
        'sample_functions': ['Event::verify', 'OwnedEvent::sign_new', 'json_escape', 'Tags::as_json', 'Pubkey::write_hex'],
        'not_decided': ['SHA-256 and BIP-340 are uninterpreted functions (prelude/crypto.rs): that changing a field changes the digest is collision resistance, a cryptographic assumption no verifier here discharges; what is proved is that verify recomputes the digest over exactly canonical(own fields) and compares all 32 bytes, so any field change that changes the digest is rejected',
                        'the Display impls of Pubkey/Time/Kind/Tags (three lines each over fmt::Formatter) are read, not verified: prelude/display.rs states what they write; the functions they call (write_hex, Tags::as_json) are proved'],
    },
    'C20': {
        'units': ['hll_hex'],
        'kani': ['hll', 'hll_slow'],
        'kani_quick': ['hll'],
        'sample_functions': [],
        'not_decided': ['estimate_count: its only panicking integer operation (1 << register) was a genuine defect, fixed in /repo (17a5c7f); the Kani harness estimate_count_any_last_register_does_not_panic guards against its return (every value 0..=255 of one register, the others empty: complete for those 256 states). Not decided: states with several non-empty registers (a harness over 256 symbolic registers, or one register at a symbolic index, did not finish in 20 minutes) and the value returned (floating point), so "returns 0 for the empty sketch" is not discharged either',
                        'the 40% error envelope for random elements is a statistical statement about floating point: no contract expresses it'],
    },
    'C19': {
        'units': ['event', 'tags_parts', 'filter_parts', 'tagsjson', 'filter_parse', 'event_parse'],
        'sample_functions': ['Tags::from_parts', 'Filter::from_parts', 'Event::from_parts', 'OwnedTags::new', 'read_tags_array'],
        'not_decided': ['OwnedEvent::sign_new: its packing is OwnedEvent::new (proved); the id/signature it computes are C08 (secp256k1 types are outside the verifier\'s reach)',
                        'JSON parsers: well-formedness, bounds, refusal of oversized sections and faithfulness of every accessor view to the text (C01 / C07 clauses of parse_json_event / parse_json_filter) are proved; that every well-formed text within the limits is ACCEPTED (completeness) is proved for the leaves only'],
    },
    'C04': {
        'units': ['map', 'store', 'storelemmas'],
        'sample_functions': ['EventStore::store_event', 'EventStore::get_event_by_offset', 'EventStore::new', 'Store::store_event'],
        'not_decided': ['close-and-reopen beyond the persistence assumption (what was written is what a later mapping reads); the mmap-append crate and the kernel are trusted by contract'],
    },
    'C12': {
        'units': ['store', 'storelemmas', 'index'],
        'sample_functions': ['Store::store_event', 'Store::remove_event'],
        'not_decided': ['observables served by Store::find_events are functions of the committed tables, which are proved unchanged; find_events itself is not under contract'],
    },
    'C18': {
        'units': ['store', 'storelemmas', 'index', 'vanish'],
        'sample_functions': ['Store::remove_event', 'Store::remove_by_offset', 'Store::store_event', 'Store::vanish#remove_authored', 'Store::vanish#remove_giftwraps'],
        'not_decided': ['Store::vanish as a whole: that its two queries return exactly the author\'s events and the kind-1059 events whose p tag names the author is a statement about Store::find_events and the two filters it is given, outside the reach of this technique (C05). Under contract are its two removal loops (unit vanish, statement ranges): whatever list a query returned, the loop removes exactly the stored events reached under the listed ids -- every index entry of each, nothing else, no deletion marker -- and on an error a prefix of the list'],
    },
    'C10': {
        'units': ['store', 'storelemmas', 'index', 'keys', 'addr'],
        'sample_functions': ['Store::handle_deletion_event', 'Store::remove_replaceable', 'Store::remove_by_offset'],
        'not_decided': [],
    },
    'C09': {
        'units': ['store', 'storelemmas', 'index', 'keys'],
        'sample_functions': ['Store::find_parameterized_replaceable_event_inner', 'Store::remove_replaceable', 'Lmdb::akc_iter'],
        'not_decided': [],
    },
    'C17': {
        'units': ['keys', 'index'],
        'sample_functions': ['Lmdb::index', 'Lmdb::deindex', 'Lmdb::key_atc_index'],
        'not_decided': ['"is returned by every filter shape": that is Store::find_events, which is outside the reach of this technique (DESIGN.md 5, C05)'],
    },
    'C11': {
        'units': ['keys', 'index', 'store', 'storelemmas', 'addr'],
        'sample_functions': ['Store::handle_deletion_event', 'Lmdb::mark_naddr_deleted', 'Lmdb::when_is_naddr_deleted', 'Lmdb::key_naddr_index'],
        'not_decided': [],
    },
    'C06': {
        'units': ['filter', 'tags'],
        'sample_functions': ['Filter::event_matches', 'Tags::matches', 'Tags::get_string'],
        'not_decided': [],
        'assumptions': ['Event accessors id/pubkey/kind/created_at/tags are used by contract (their bodies are under proof in unit `event`)'],
    },
    'C03': {
        'units': ['utf8', 'escape', 'lex', 'hexread', 'tagsjson', 'event_parse', 'filter_parse', 'from_json', 'addr', 'hexwrite', 'hll_hex', 'tags', 'event', 'filter'],
        'sample_functions': ['json_unescape', 'parse_json_event', 'Event::from_json', 'next_code_point', 'read_u64', 'read_id'],
        'not_decided': ['stack depth of the mutually recursive burn_value / burn_array / burn_object on deeply nested input is not modelled (termination is proved, a stack bound is not)',
                        'serializer preconditions: every string of a successfully parsed EVENT (and Tags) is proved renderable (escapable), so Event::as_json / Tags::as_json / Event::verify are total on it; likewise the tag values of a successfully parsed FILTER (Filter::as_json). Values built from parts or read from stored bytes carry no such guarantee: json_escape panics on a code point above U+10FFFF (only reachable from invalid UTF-8 given through from_parts)'],
    },
}


def _close_units():
    """A modular proof uses a callee through its contract only.  A property's check therefore also runs the unit in
    which the body of each such callee is proved: the unit lists above are closed under `standin -> unit that owns the
    body` (units/*.unit), to a fixpoint.  Functions whose body is in no unit stay assumptions (listed in the evidence)."""
    import os
    here = os.path.dirname(os.path.dirname(os.path.abspath(__file__)))
    bodies, standins, envs = {}, {}, {}
    for f in sorted(os.listdir(os.path.join(here, 'units'))):
        if not f.endswith('.unit'):
            continue
        u = f[:-5]
        for l in open(os.path.join(here, 'units', f)):
            p = l.split()
            if len(p) >= 3 and p[0] == 'body':
                bodies.setdefault((p[1], p[2]), []).append(u)
            elif len(p) >= 3 and p[0] == 'standin':
                standins.setdefault(u, []).append((p[1], p[2]))
            elif len(p) == 2 and p[0] == 'env':
                envs.setdefault(u, []).append(p[1])
    # `env FILE` stands for a stand-in of every contracted function of that file
    for u, files in envs.items():
        for key in bodies:
            if key[0] in files and u not in bodies[key]:
                standins.setdefault(u, []).append(key)
    for pid, P in PROPERTIES.items():
        units = list(P['units'])
        added = []
        changed = True
        while changed:
            changed = False
            for u in list(units):
                for s in standins.get(u, ()):
                    owners = bodies.get(s)
                    if owners and not any(o in units for o in owners):
                        o = min(owners, key=lambda x: (x != 'small', x)); units.append(o); added.append(o); changed = True
        P['declared_units'] = list(P['units'])
        P['closure_units'] = added
        P['units'] = units


_close_units()
