#!/usr/bin/env python3
"""Runs a woven unit through Verus and classifies the outcome per function."""
import json
import os
import re
import shutil
import subprocess
import sys
import tempfile
import time

sys.path.insert(0, os.path.dirname(os.path.abspath(__file__)))
import weave

VERUS = shutil.which('verus') or '/usr/local/bin/verus'

TOOL_LIMIT_PAT = re.compile(r'rlimit|Resource limit|timed? ?out|solver (crashed|error)|unexpected SMT', re.I)


def scratch_dir():
    base = os.environ.get('VERIF_SCRATCH') or tempfile.gettempdir()
    return tempfile.mkdtemp(prefix='pocket-verif-', dir=base)


class UnitOutcome:
    def __init__(self, name):
        self.name = name
        self.status = 'ok'          # ok | failed | undecided
        self.reason = ''
        self.verified = 0
        self.errors = 0
        self.failed = {}            # fn path -> list of {msg, unit_line, origin, origin_line, text}
        self.tool_limited = {}      # fn path -> msgs
        self.twins_total = 0
        self.twins_rejected = 0
        self.twins_vacuous = []     # twins that verified (BAD)
        self.functions = []
        self.standins = []
        self.rewrites = []
        self.seconds = 0.0
        self.cmd = ''
        self.raw = ''
        self.trusted = []
        self.unit_text = ''
        self.fallbacks = []

    def to_json(self):
        return {k: getattr(self, k) for k in
                ('name', 'status', 'reason', 'verified', 'errors', 'failed', 'tool_limited', 'twins_total',
                 'twins_rejected', 'twins_vacuous', 'functions', 'standins', 'rewrites', 'seconds', 'cmd', 'trusted', 'fallbacks')}


def fn_ranges(res: weave.UnitResult):
    """Map unit line -> (origin label) using the linemap: contiguous runs with the same origin that is a
    repo file or twin marker."""
    return res.linemap


def scan_trusted(text, unit):
    out = []
    pats = [r'\bassume\s*\(', r'\badmit\s*\(', r'external_body', r'assume_specification', r'\buninterp\b',
            r'external_type_specification', r'#\[verifier::external', r'external_trait_specification']
    for ln, line in enumerate(text.split('\n'), 1):
        code = line.split('//')[0]
        for p in pats:
            if re.search(p, code):
                out.append((ln, p, line.strip()))
    return out


def describe_trusted(text):
    """One entry per trusted declaration: the attribute line plus the following signature line."""
    lines = text.split('\n')
    out = []
    i = 0
    while i < len(lines):
        code = lines[i].split('//')[0]
        if re.search(r'external_body|external_trait_specification|external_type_specification', code):
            j = i + 1
            while j < len(lines) and not re.search(r'\b(fn|struct|trait|enum|type)\b', lines[j]):
                j += 1
            if j < len(lines):
                sig = lines[j].strip()
                out.append('external_body: ' + re.sub(r'\s+', ' ', sig)[:160])
            i = j + 1
            continue
        m = re.search(r'assume_specification.*?\[\s*(.*?)\s*\]', code)
        if m:
            out.append('assume_specification: ' + m.group(1))
        elif re.search(r'\buninterp\b', code):
            out.append('uninterp: ' + re.sub(r'\s+', ' ', code.strip())[:160])
        elif re.search(r'\b(assume|admit)\s*\(', code):
            out.append('ASSUME: ' + code.strip())
        i += 1
    return sorted(set(out))


def run_unit(name, repo='/repo', rlimit=None, seed=None, twins=True, keep=None, solver=None, threads=None):
    out = UnitOutcome(name)
    t0 = time.time()
    try:
        u = weave.Unit(name, repo, twins=twins)
        res = u.build()
    except weave.LostAnchor as e:
        out.status = 'undecided'
        out.reason = 'lost anchor: %s' % e
        return out
    except weave.WeaveError as e:
        out.status = 'undecided'
        out.reason = 'weave error: %s' % e
        return out
    out.functions = res.functions
    out.standins = res.standins
    out.rewrites = res.rewrites
    out.twins_total = len(res.twins)
    out.fallbacks = res.fallbacks
    out.unit_text = res.text
    out.trusted = describe_trusted(res.text)
    d = scratch_dir()
    try:
        path = os.path.join(d, name.replace('-', '_') + '.rs')
        open(path, 'w').write(res.text)
        if keep:
            shutil.copy(path, keep)
        cmd = [VERUS, path, '--triggers-mode', 'silent', '--multiple-errors', '5', '--error-format=json', '-V', 'spinoff-all',
               '--no-report-long-running']
        if rlimit:
            cmd += ['--rlimit', str(rlimit)]
        if seed is not None:
            cmd += ['--smt-option', 'smt.random_seed=%d' % seed]
        if solver == 'cvc5':
            cmd += ['-V', 'cvc5']
        if threads:
            cmd += ['--num-threads', str(threads)]
        out.cmd = ' '.join(cmd[:1] + ['<unit:%s>' % name] + cmd[2:])
        p = subprocess.run(cmd, cwd=d, capture_output=True, text=True)
        out.raw = p.stdout + '\n' + p.stderr
    finally:
        shutil.rmtree(d, ignore_errors=True)
    out.seconds = round(time.time() - t0, 2)
    classify(out, res, p)
    return out


def origin_fn(res, line):
    """Return (label, repo_file, repo_line) for a unit line."""
    if line < 1 or line > len(res.linemap):
        return ('<unknown>', '', 0)
    o, ln = res.linemap[line - 1]
    return o, ln


def classify(out, res, p):
    text = p.stdout + '\n' + p.stderr
    m = re.search(r'verification results:: (\d+) verified, (\d+) errors', text)
    diags = []
    for line in text.split('\n'):
        line = line.strip()
        if line.startswith('{') and '"$message_type"' in line:
            try:
                diags.append(json.loads(line))
            except Exception:
                pass
    errs = [d for d in diags if d.get('level') == 'error' and not d.get('message', '').startswith('aborting')]
    if not m:
        out.status = 'undecided'
        msg = '; '.join(d.get('message', '') for d in errs[:3]) or text.strip()[-400:]
        locs = []
        for d in errs[:3]:
            for sp in d.get('spans', []):
                if sp.get('is_primary'):
                    o, ln = origin_fn(res, sp['line_start'])
                    locs.append('%s:%s (unit line %d: %s)' % (o, ln, sp['line_start'],
                                                               (sp.get('text') or [{}])[0].get('text', '').strip()[:100]))
        out.reason = 'verus did not reach verification (unsupported construct / type error / contract mismatch): ' \
                     + msg + ' @ ' + ' | '.join(locs)
        return
    out.verified = int(m.group(1))
    out.errors = int(m.group(2))
    # function line ranges in the unit: build from linemap runs
    # Determine for each error which function (origin label + nearest preceding fn) it belongs to
    fn_at = fn_index(res)
    twin_failed = set()
    for d in errs:
        prim = None
        for sp in d.get('spans', []):
            if sp.get('is_primary'):
                prim = sp
        if prim is None:
            continue
        # an error inside a macro expansion is attributed to the call site of the outermost expansion
        site = prim
        while site.get('expansion') and site['expansion'].get('span'):
            site = site['expansion']['span']
        line = site['line_start']
        fn = fn_at(line)
        msg = d.get('message', '')
        if fn is None:
            # error in spec/prelude (lemma failing): attribute to the file
            o, ln = origin_fn(res, line)
            fn = {'label': o, 'path': '%s:%d' % (o, ln), 'twin': False, 'file': o, 'line0': ln, 'start': line}
        if fn['twin']:
            twin_failed.add(fn['path'])
            continue
        spans = []
        if site is not prim:
            o, ln = origin_fn(res, site['line_start'])
            spans.append({'unit_line': site['line_start'], 'origin': o, 'origin_line': ln, 'label': 'macro call site',
                          'text': (site.get('text') or [{}])[0].get('text', '').strip()[:200]})
        for sp in d.get('spans', []):
            o, ln = origin_fn(res, sp['line_start'])
            spans.append({'unit_line': sp['line_start'], 'origin': o, 'origin_line': ln, 'label': sp.get('label'),
                          'text': (sp.get('text') or [{}])[0].get('text', '').strip()[:200]})
        rec = {'msg': msg, 'spans': spans}
        # clause-level property tags: `//@C01,C02` at the end of the first line of an ensures clause
        for sp in spans:
            if sp.get('label') and 'failed this postcondition' in sp['label']:
                line_txt = res.text.split('\n')[sp['unit_line'] - 1] if 0 < sp['unit_line'] <= len(res.linemap) else ''
                mm = re.search(r'//@\s*([C0-9,\s]+)$', line_txt)
                if mm:
                    rec['props'] = [x.strip() for x in mm.group(1).split(',') if x.strip()]
        if TOOL_LIMIT_PAT.search(msg):
            out.tool_limited.setdefault(fn['path'], []).append(rec)
        else:
            out.failed.setdefault(fn['path'], []).append(rec)
    out.twins_rejected = len(twin_failed)
    out.twins_vacuous = sorted(set(res.twins) - twin_failed)
    if out.failed:
        out.status = 'failed'
    elif out.tool_limited:
        out.status = 'undecided'
        out.reason = 'tool limit: ' + '; '.join('%s: %s' % (k, v[0]['msg']) for k, v in out.tool_limited.items())
    elif out.twins_vacuous:
        out.status = 'undecided'
        out.reason = 'vacuity guard: `ensures false` twin verified for ' + ', '.join(out.twins_vacuous)
    else:
        out.status = 'ok'


def fn_index(res):
    """Build a lookup unit-line -> function record, from the unit text: every `fn name` line whose origin is a
    repo file or twin marker starts a function that lasts until the next such start or origin change."""
    lines = res.text.split('\n')
    starts = []
    for i, (l, (o, ln)) in enumerate(zip(lines, res.linemap), 1):
        if (o.endswith('.rs') and (o.startswith('pocket-') or o.startswith('<twin:'))) or o.startswith('<twin:'):
            mm = re.match(r'\s*(?:pub(?:\([^)]*\))?\s+)?(?:const\s+)?(?:unsafe\s+)?fn\s+(\w+)', l)
            if mm:
                twin = o.startswith('<twin:')
                path = o[6:-1] if twin else None
                starts.append({'start': i, 'name': mm.group(1), 'twin': twin, 'label': o, 'file': o, 'line0': ln,
                               'path': path})
    # resolve non-twin paths using res.functions order
    k = 0
    nontwin = [s for s in starts if not s['twin']]
    # functions (bodies) and standins are emitted in order; names match
    allf = sorted(res.functions + res.standins, key=lambda r: 0)
    by_name = {}
    for r in res.functions + res.standins:
        by_name.setdefault((r['file'], r['path'].split('::')[-1].split('#')[-1]), []).append(r)
    for s in nontwin:
        cands = by_name.get((s['file'], s['name']), [])
        best = None
        for c in cands:
            if best is None or abs(c['line'] - s['line0']) < abs(best['line'] - s['line0']):
                best = c
        s['path'] = '%s::%s' % (best['file'], best['path']) if best else '%s::%s' % (s['file'], s['name'])

    def at(line):
        # attribute to the closest preceding start; allow up to 3 lines before (attrs)
        cur = None
        for s in starts:
            if s['start'] - 3 <= line:
                cur = s
            else:
                break
        if cur is None:
            return None
        # ensure the line's origin is compatible (same label) -- otherwise it's spec/prelude
        o, _ = res.linemap[line - 1] if 0 < line <= len(res.linemap) else ('', 0)
        if o != cur['label'] and not (o == '<weave>'):
            return None
        return cur
    return at


if __name__ == '__main__':
    import argparse
    ap = argparse.ArgumentParser()
    ap.add_argument('unit')
    ap.add_argument('--repo', default='/repo')
    ap.add_argument('--keep')
    ap.add_argument('--rlimit', type=float, default=30)
    ap.add_argument('--no-twins', action='store_true')
    ap.add_argument('-v', action='store_true')
    a = ap.parse_args()
    o = run_unit(a.unit, a.repo, rlimit=a.rlimit, twins=not a.no_twins, keep=a.keep)
    print('unit %s: %s  verified=%d errors=%d twins %d/%d rejected  %.1fs' % (
        o.name, o.status, o.verified, o.errors, o.twins_rejected, o.twins_total, o.seconds))
    if o.reason:
        print('  reason:', o.reason)
    for fb in o.fallbacks:
        print('  FALLBACK (anchors lost, loop-free: verified against pre/postcondition only):', fb['fallback'], '--', fb['reason'])
    for f, recs in o.failed.items():
        print('  FAILED', f)
        for r in recs:
            print('     -', r['msg'])
            for sp in r['spans']:
                print('         %s:%s [unit %d] %s  %s' % (sp['origin'], sp['origin_line'], sp['unit_line'], sp['label'] or '', sp['text'][:110]))
    for f, recs in o.tool_limited.items():
        print('  TOOL-LIMIT', f, recs[0]['msg'])
    if a.v:
        print(o.raw[-3000:])
