#!/usr/bin/env python3
"""Regenerates /verif/MANIFEST.json from tools/plan.py and the texts below."""
import json, os, sys
sys.path.insert(0, os.path.dirname(os.path.abspath(__file__)))
import plan

TEXT = {
 'C01': ("Leaf level of the event parser, each against a grammar-level spec written from RFC 8259 / RFC 3629: read_u64/read_kind are Ok exactly when a non-empty digit run denotes a value that fits (u64 / <= 65535), return that value and never wrap; read_id/read_pubkey/read_sig accept exactly quote + 64/128 hex digits + quote and store hex_decode of them (HEX_INVERSE table contents included); next_code_point/encode_utf8 equal the RFC 3629 bit layout; json_unescape is total; is_safe_char equals the JSON safe-character set for all 2^32 arguments (Kani); parse_json_event is total, consumes <= input, writes the length field within the buffer and zero padding.",
         "The entry-point contract against the jevent spec (soundness/completeness) is NOT yet stated: see coverage.not_decided."),
 'C02': ("json_escape returns exactly out + escape(input) (the NIP-01/JSON.stringify escape function) for every escapable input and never panics there; Event::from_parts returns exactly the canonical packing event_bytes(parts) independent of prior buffer contents; the JSON path zeroes the padding bytes; encode_utf8 is the RFC 3629 encoder.",
         "as_json == event_json(view) and the re-parse lemma are not yet under contract: see coverage.not_decided."),
 'C07': ("Filter::as_json is proved to return exactly filter_json(view): the present members in the order ids, authors, kinds, #tags, limit, since, until, separated by single commas, ids/authors as lower-case hex, numbers in decimal, tag values JSON-escaped; the leaf readers used by parse_json_filter are proved against grammar-level specs (integers never wrap, hex members decoded exactly) and the parser itself is total with a structural postcondition.",
         "The parser's entry-level faithfulness against a jfilter spec and the re-parse lemma are not yet stated: see coverage.not_decided."),
 'C08': ("The escaping used for the canonical serialisation is pinned character class by character class: json_escape == escape spec (\\b \\t \\n \\f \\r \\\" \\\\, other controls as \\u00xx lower-case, everything else verbatim) and is_safe_char == the safe set for all 2^32 code points.",
         "verify/sign_new composition and the cryptographic primitives are not under contract: see coverage.not_decided."),
 'C03': ("Every parsing function of pocket-types reachable from the entry points (UTF-8 decode/encode, JSON string unescape, lexer, hex readers, tags/content readers, parse_json_event, parse_json_filter) is verified by Verus with NO precondition on input bytes or buffer length at the entry points: all index/slice bounds, arithmetic overflow, shifts, panic!/unwrap unreachability and termination obligations are discharged for all inputs and all loop iterations, plus consumed <= input length. A successful Event::from_json / Tags::from_json / Filter::from_json result is proved structurally well-formed (wf_event / wf_tags / wf_filter: every stored length and offset in bounds, sections chained exactly), and every accessor, iterator and the match predicate are proved total under exactly that well-formedness; hex decoders (ids, pubkeys, signatures, HLL registers) and address parsing are total and functionally specified.",
         "Stack depth of the recursive burn_* family is not modelled. Serializers are proved total under an additional renderability condition on the strings (escapable), which is not yet derived for JSON-parsed values."),
 'C04': ("EventStore::store_event/get_event_by_offset/new are verified against a trusted contract of mmap-append/File/AtomicUsize: an event is appended at a fresh aligned offset at or beyond the old end marker, bytes below the old end are never touched, the grow-and-retry loop terminates, the cached file length equals the mapping length, and an offset at which an event was stored reads back exactly its bytes; Store::store_event's contract lifts this to the store (events map only grows by the new event).", "mmap-append, the kernel and the file system are trusted by contract; reopen = persistence assumption."),
 'C06': ("Filter::event_matches is proved equal to nip01_matches (a transcription of the property statement) for every structurally well-formed filter (whether built from JSON or from parts, with or without named constraints) and event; it never errors or panics. Callee contracts (Tags::matches, get_string, the id/author/kind iterators, Event accessors) are proved against the packed-layout views.", "Event::id/pubkey/sig by-value accessors are used by contract (slice->array conversion is std)."),
 'C09': ("Store::store_event contract over the trusted LMDB contract: for replaceable kinds an akc entry of the (author, kind) range outside the '<= created_at' sub-range forces an error, and after a successful store the new event's key is the ONLY entry of that range; remove_replaceable / remove_parameterized_replaceable remove exactly the keys of the events their committed range scan finds (whole-table postconditions); find_*_inner return the first (matching-kind) entry or None iff none; the range constructors pin exact key bounds; key builders equal the documented layouts; Kind classification equals the NIP-01 ranges.", "LMDB/heed by assumed contract (finite maps, snapshot reads, ordered ranges, atomic commit). The byte-order meaning of the key ranges (entries = events with since <= t <= until) and the parameterized-kind uniqueness clause are not yet discharged: see not_decided."),
 'C10': ("Store::handle_deletion_event is proved to change, between the transaction view it is given and the one it leaves, only: address markers whose key is an address of the requester's own pubkey, id markers of ids that are absent from the committed store or belong to the requester's own event, and index entries that are keys of stored events authored by the requester (deletion_delta_ok), for any number and order of tags; store_event commits only on success.", "LMDB by contract; events in the map with equal ids are not assumed to be equal (no hash assumption)."),
 'C11': ("mark_naddr_deleted stores max(previous, when) for exactly the address key and changes nothing else; when_is_naddr_deleted reads that key; key_naddr_index equals the documented 217-byte layout; store_event refuses events whose id is marked deleted and replaceable events covered by an address marker (created_at <= marker).", "LMDB by contract. The parameterized-replaceable marker clause of store_event is listed under not_decided."),
 'C12': ("Store::store_event: r is Err ==> the committed LMDB state is exactly the state before the call (Txn::commit is the only operation whose contract changes it and it is the last effectful step); the event map only grows. Same for remove_event.", "Observables are functions of the committed tables; find_events is not under contract."),
 'C16': ("The marker codec that rebuild relies on is proved: dump_naddr_deleted returns one (address, time) pair per entry of the deleted-address table and key_naddr_index of that address is exactly the entry's key (for every d length, including d longer than 182 bytes), dump_deleted returns exactly the marked ids, mark_naddr_deleted/mark_deleted write exactly that key; index(event, offset) is a function of (event, offset) adding exactly the event's keys; the event store appends exactly the event bytes at an 8-aligned offset.",
         "Store::rebuild's own loops, file moves and reopen are not under contract (see coverage.not_decided)."),
 'C17': ("Lmdb::index adds exactly the event's keys (id, ci, akc, ac and one tc/atc/ktc key per indexable tag) mapping to the offset and changes nothing else, over the whole of all tables; deindex + deindex_id remove exactly those keys; key builders equal the documented layouts.", "The 'every filter shape returns it' half lives in find_events (not applicable to this technique)."),
 'C18': ("Store::remove_event: absent id => committed state unchanged; present id => exactly the keys of that event disappear from every table, no marker is written; error => nothing committed. store_event of an ephemeral kind succeeds and leaves the committed state unchanged.", "vanish is not under contract (calls find_events)."),
 'C19': ("Tags::from_parts / OwnedTags::new (generic part lists): Err exactly when the computed size exceeds 65535 or the buffer is smaller than it, otherwise a well-formed value of exactly that size whose tags_view equals the parts (same strings, same order), laid out contiguously in the order given. Filter::from_parts / OwnedFilter::new: Err exactly when more than 65535 ids, authors or kinds are given or the buffer is too small, otherwise a well-formed filter whose id/author/kind/tags/limit/since/until views equal the parts. Event::from_parts / OwnedEvent::new: exactly the canonical packing of the parts (view equality on all seven fields, well-formedness) or an error when the length does not fit 32 bits or the buffer is too small. The JSON tag/event/filter parsers refuse counts and sections over 65535 (every `as u16` is dominated by a range check) and return well-formed values.", "sign_new's id and signature are C08; the JSON parsers' \"accessors reproduce the parsed parts\" is stage 3 of C01/C07. Trusted: AsRef::as_ref is a function of its receiver; the part lists fit in the address space."),
 'C20': ("Kani, complete (full-domain symbolic 256-register sketches, constant loop bounds, unwinding assertions): merge is register-wise max, commutative, associative, idempotent; add_element = max at (index, rho) with rho checked against an independent bit-level reference, idempotent, order-independent, Err iff offset >= 24; adding an element commutes with merging (one-step union law).", "Hex round trip and estimate_count are in not_decided until their units land; the 40% envelope is a statistical statement no contract expresses."),
}
NA = {
 'C05': "Store::find_events (closure capturing a mutable flag, BTreeSet<&Event>, iterator adaptor chains, heed iterators) is outside the Rust subset Verus reads, and Kani cannot execute LMDB (C FFI); the supporting key-layout and range contracts are proved under C09/C17 but do not decide the query semantics.",
 'C13': "crash consistency needs a crash semantics (page cache, msync, LMDB meta-page flip); contracts relate states at call boundaries only.",
 'C14': "concurrency: Kani has no threads and Verus reasons about concurrency only for code written against its own ghost-permission primitives, not a C writer lock reached through heed.",
 'C15': "address stability of an mremap'd mapping behind unsafe slice construction is not expressible as a contract over Rust values; the byte-content half is C04.",
}
PENDING = {
}

def main():
    m = {"version": 1, "setup_cmd": "./check selftest",
         "hooks": {"guard": "none", "enable": "none: checks weave scratch copies of /repo (Verus units, Kani copy with cfg(kani) modules); /repo carries no verification hooks",
                   "baseline_off_cmd": "cd /repo && cargo test --workspace --no-fail-fast --offline", "source_commits": [], "add_only": True},
         "engines": [{"name": "verus-weave", "path": "/verif/tools/weave.py", "serves_properties": sorted(plan.PROPERTIES.keys()), "kind_free_text": "extracts real functions by item path, applies the closed rewrite list, splices contracts, runs Verus per unit"},
                     {"name": "kani-weave", "path": "/verif/tools/kani_tool.py", "serves_properties": ["C20"], "kind_free_text": "Kani harness groups on a scratch copy of the real crate"}],
         "checks": [], "not_applicable": []}
    for pid in sorted(plan.PROPERTIES.keys()):
        if pid not in TEXT:
            continue
        txt, note = TEXT[pid]
        m["checks"].append({
            "property_id": pid, "quick_cmd": "./check %s --tier quick" % pid, "thorough_cmd": "./check %s --tier thorough" % pid,
            "evidence_file": "/verif/evidence/%s.json" % pid, "replay_cmd_template": "./check replay {path}", "engine": "verus-weave" + ("+kani-weave" if plan.PROPERTIES[pid].get('kani') else ''),
            "level_claimed": {"category": "proof", "text": txt, "design_ref": "DESIGN.md section 4 " + pid},
            "level_note": note + " Trusted base is listed per run in the evidence file (coverage.trusted_base).",
            "technique": "contract-based deductive verification: Verus on functions extracted verbatim from /repo" + ("; Kani function-level harnesses (complete: constant loop bounds)" if plan.PROPERTIES[pid].get('kani') else '')})
    claimed = set(c['property_id'] for c in m['checks'])
    for pid, r in NA.items():
        m["not_applicable"].append({"property_id": pid, "reason": r})
    for pid, r in PENDING.items():
        if pid not in claimed:
            m["not_applicable"].append({"property_id": pid, "reason": "not claimed yet: " + r})
    json.dump(m, open('/verif/MANIFEST.json', 'w'), indent=1)
    print('claimed:', sorted(claimed))

main()
