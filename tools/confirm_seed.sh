#!/bin/bash
# usage: confirm_seed.sh seeded/<ID>   -- confirms a seeded change in a scratch worktree of /repo HEAD:
#   existing suite passes with the change, demo fails with it, demo passes without it.
set -u
D=$(realpath "$1"); W=/tmp/wt/confirm-$$
git -C /repo worktree add --detach $W HEAD -q || exit 2
cd $W
demo=$(ls $D/demo_*.rs | head -1); name=$(basename $demo .rs)
crate=pocket-db; grep -q "pocket_db" $demo || crate=pocket-types
if ! git apply --3way $D/patch.diff 2>/tmp/confirm-$$.err; then echo "PATCH DOES NOT APPLY"; cat /tmp/confirm-$$.err; git -C /repo worktree remove --force $W; exit 2; fi
suite=$(cargo test --workspace --offline 2>&1 | grep -E "^test result" | awk '{s+=$4; f+=$6} END {print s" passed, "f" failed"}')
mkdir -p $crate/tests; cp $demo $crate/tests/
with=$(cargo test -p $crate --test $name --offline 2>&1 | grep -E "^test result" | tail -1)
git apply -R $D/patch.diff 2>/dev/null || git checkout -- pocket-types/src pocket-db/src
without=$(cargo test -p $crate --test $name --offline 2>&1 | grep -E "^test result" | tail -1)
echo "suite with change: $suite"; echo "demo with change:    $with"; echo "demo without change: $without"
cd /; git -C /repo worktree remove --force $W; rm -f /tmp/confirm-$$.err
