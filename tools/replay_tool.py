#!/usr/bin/env python3
"""./check replay <path>: re-run a recorded violation against the real code of /repo's current tree."""
import json
import os
import sys


def main(args):
    if not args:
        print('usage: ./check replay <path>')
        return 2
    r = json.load(open(args[0]))
    repo = os.environ.get('VERIF_REPO', '/repo')
    print('property   :', r.get('property'))
    print('function   :', r.get('function'))
    print('obligation :', r.get('obligation'))
    fi = r.get('failing_input')
    if fi and fi.get('kani_concrete_playback_test'):
        import kani_tool
        res = kani_tool.playback(fi['group'], fi['kani_concrete_playback_test'], repo)
        print('kani playback test:', res['test'])
        print(res['output_tail'])
        if res['reproduced']:
            print('REPRODUCED: the counterexample makes the harness assertion fail on the real code')
            return 1
        print('not reproduced on the current tree')
        return 0
    if fi and fi.get('replay_driver'):
        import subprocess
        subprocess.run(['cargo', 'build', '--offline', '-q'], cwd=os.path.join(os.path.dirname(os.path.dirname(os.path.abspath(__file__))), 'replay'))
        exe = os.path.join(os.path.dirname(os.path.dirname(os.path.abspath(__file__))), 'replay', 'target', 'debug', 'pocket-replay')
        p = subprocess.run([exe] + fi['replay_driver'], capture_output=True, text=True)
        print(p.stdout)
        return 1 if '"panic"' in p.stdout else 0
    print('no failing input was found for this obligation (Verus gives no counterexamples); the failed obligation and the')
    print('verifier output are recorded in the replay file:')
    for sp in r.get('spans', []):
        print('   %s:%s %s | %s' % (sp.get('origin'), sp.get('origin_line'), sp.get('label') or '', sp.get('text')))
    print('re-run `./check %s` to re-establish the verdict on the current tree' % r.get('property'))
    return 1


if __name__ == '__main__':
    sys.exit(main(sys.argv[1:]))
