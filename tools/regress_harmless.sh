#!/bin/bash
# usage: regress_harmless.sh [-j N] [unit ...]
# Re-runs every behaviour-preserving diff in seeded/harmless/ against the units of the files it touches (restricted to
# the units named on the command line, if any).  Each diff is applied to its own scratch worktree of /repo HEAD under
# /tmp/wt (source only: the weaver reads source files, nothing is built) and the worktree is removed afterwards.
# Output: one line per (diff, unit).  Expected: no line with `failed` other than unit keys (open known finding).
J=4; if [ "$1" = "-j" ]; then J=$2; shift 2; fi
ONLY=" $* "
cd /verif
one() {
  d=$1; ONLY=$2
  files=$(grep '^+++ b/' $d | sed 's|+++ b/||')
  units=""
  for f in $files; do
    case $f in
      pocket-types/src/json/json_parse.rs) units="$units lex tagsjson hexread";;
      pocket-types/src/json/json_escape.rs) units="$units escape";;
      pocket-types/src/json/utf8.rs) units="$units utf8";;
      pocket-types/src/json/mod.rs) units="$units lex";;
      pocket-types/src/event.rs) units="$units event event_parse event_json verify sign from_json";;
      pocket-types/src/filter.rs) units="$units filter filter_parse filter_parts filter_json from_json";;
      pocket-types/src/tags.rs) units="$units tags tags_parts tags_json from_json";;
      pocket-types/src/id.rs|pocket-types/src/pubkey.rs|pocket-types/src/sig.rs) units="$units hexwrite";;
      pocket-types/src/hll8.rs) units="$units hll_hex";;
      pocket-types/src/addr.rs) units="$units addr";;
      pocket-types/src/macros.rs) units="$units hexread hexwrite";;
      pocket-db/src/lib.rs) units="$units store rebuild";;
      pocket-db/src/lmdb/mod.rs) units="$units index keys";;
      pocket-db/src/event_store.rs) units="$units map";;
    esac
  done
  units=$(echo $units | tr ' ' '\n' | sort -u | tr '\n' ' ')
  W=/tmp/wt/harmless-$(basename $d .diff)
  git -C /repo worktree add --detach $W HEAD -q 2>/dev/null || { echo "NOWORKTREE $d"; return; }
  if git -C $W apply /verif/$d 2>/dev/null; then
    for u in $units; do
      if [ "$ONLY" != "  " ] && [[ "$ONLY" != *" $u "* ]]; then continue; fi
      r=$(python3 tools/runner.py $u --repo $W --no-twins 2>&1 | head -2 | tr '\n' ' ' | cut -c1-220)
      echo "$(basename $d) :: $r"
    done
  else
    echo "NOAPPLY $d"
  fi
  git -C /repo worktree remove --force $W
}
export -f one
mkdir -p /tmp/wt
ls seeded/harmless/*.diff | xargs -P $J -I{} bash -c "one {} '$ONLY'"
git -C /repo worktree prune
