#!/bin/bash
# usage: demo_defect.sh <op> <args...>   -- runs the replay driver on /repo HEAD (before) and on the working tree (after)
set -e
cd /repo; git stash -q
(cd /verif/replay && cargo build --offline -q 2>/dev/null)
echo -n "before: "; /verif/replay/target/debug/pocket-replay "$@" | cut -c1-300
cd /repo; git stash pop -q
(cd /verif/replay && cargo build --offline -q 2>/dev/null)
echo -n "after:  "; /verif/replay/target/debug/pocket-replay "$@" | cut -c1-300
