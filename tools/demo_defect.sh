#!/bin/bash
# usage: demo_defect.sh <op> <args...>   -- runs the replay driver on /repo HEAD (before) and on the working tree (after)
# (uses diff/apply, never `git stash`: the stash is shared between worktrees)
set -e
cd /repo; git diff > /tmp/demo_defect.$$.diff
[ -s /tmp/demo_defect.$$.diff ] && git apply -R /tmp/demo_defect.$$.diff
(cd /verif/replay && cargo build --offline -q 2>/dev/null)
echo -n "before: "; /verif/replay/target/debug/pocket-replay "$@" | cut -c1-600
cd /repo; [ -s /tmp/demo_defect.$$.diff ] && git apply /tmp/demo_defect.$$.diff
rm -f /tmp/demo_defect.$$.diff
(cd /verif/replay && cargo build --offline -q 2>/dev/null)
echo -n "after:  "; /verif/replay/target/debug/pocket-replay "$@" | cut -c1-600
