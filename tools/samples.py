#!/usr/bin/env python3
"""Sample nostr texts used for witnesses and replay lifting."""
import sys
EVENT = {
 "id": "a9663055164ab8b30d9524656370c4bf93393bb051b7edf4556f40c5298dc0c7",
 "pubkey": "ee11a5dff40c19a555f41fe42b48f00e618c91225622ae37b6c2bb67b76c4e49",
 "created_at": "1681778790",
 "kind": "1",
 "sig": "4dfea1a6f73141d5691e43afc3234dbe73016db0fb207cf247e0127cc2591ee6b4be5b462272030a9bde75882aae810f359682b1b6ce6cbb97201141c576db42",
 "content": "\"He got snowed in\"",
 "tags": "[[\"client\",\"gossip\"],[\"p\",\"e2ccf7cf20403f3f2a4a55b328f0de3be38558a7d5f33632fdaaefc726c1c8eb\"]]",
}
ORDER = ["id", "pubkey", "created_at", "kind", "sig", "content", "tags"]

def event_text(over=None, order=None, extra=None):
    """over: member -> raw JSON value text (bytes or str); extra: list of (pos, raw member text)"""
    e = dict(EVENT)
    for k in ("id", "pubkey", "sig"):
        e[k] = '"' + e[k] + '"'
    if over:
        e.update(over)
    parts = []
    for k in (order or ORDER):
        v = e[k]
        if isinstance(v, str):
            v = v.encode()
        parts.append(b'"' + k.encode() + b'":' + v)
    for pos, raw in (extra or []):
        parts.insert(pos, raw if isinstance(raw, bytes) else raw.encode())
    return b'{' + b','.join(parts) + b'}'

if __name__ == '__main__':
    import ast
    over = {}
    extra = []
    for a in sys.argv[1:]:
        k, v = a.split('=', 1)
        if k.startswith('+'):
            extra.append((int(k[1:]), v))
        else:
            over[k] = v
    sys.stdout.write(event_text(over, extra=extra).hex())
