#!/usr/bin/env python3
"""Small Rust-aware lexer and item locator.

Locates items (fn, struct, const, static, macro_rules!, impl blocks and the fns inside them)
by path in a Rust source file and returns their exact source spans so that the text can be
copied verbatim.  It understands comments (nested block comments), string / raw string / byte
string literals, char literals vs lifetimes, and nesting of (), [], {}.
"""
import re
from dataclasses import dataclass, field
from typing import List, Optional, Dict


@dataclass
class Tok:
    kind: str   # ident, punct, str, char, lifetime, num, comment
    text: str
    start: int
    end: int


IDENT_START = re.compile(r'[A-Za-z_]')
IDENT = re.compile(r'[A-Za-z_][A-Za-z0-9_]*')
NUM = re.compile(r'[0-9][0-9A-Za-z_]*(\.[0-9][0-9A-Za-z_]*)?')


def tokenize(src: str, keep_comments=False) -> List[Tok]:
    toks = []
    i = 0
    n = len(src)
    while i < n:
        c = src[i]
        if c.isspace():
            i += 1
            continue
        if src.startswith('//', i):
            j = src.find('\n', i)
            if j < 0:
                j = n
            if keep_comments:
                toks.append(Tok('comment', src[i:j], i, j))
            i = j
            continue
        if src.startswith('/*', i):
            depth = 1
            j = i + 2
            while j < n and depth > 0:
                if src.startswith('/*', j):
                    depth += 1
                    j += 2
                elif src.startswith('*/', j):
                    depth -= 1
                    j += 2
                else:
                    j += 1
            if keep_comments:
                toks.append(Tok('comment', src[i:j], i, j))
            i = j
            continue
        # raw strings r"..", r#".."#, br".."
        m = re.match(r'(b?r)(#*)"', src[i:i + 40])
        if m and (i == 0 or not (src[i - 1].isalnum() or src[i - 1] == '_')):
            hashes = m.group(2)
            close = '"' + hashes
            j = src.find(close, i + len(m.group(0)))
            if j < 0:
                raise ValueError('unterminated raw string at %d' % i)
            j += len(close)
            toks.append(Tok('str', src[i:j], i, j))
            i = j
            continue
        if c == '"' or (c == 'b' and i + 1 < n and src[i + 1] == '"'):
            j = i + (2 if c == 'b' else 1)
            while j < n and src[j] != '"':
                if src[j] == '\\':
                    j += 2
                else:
                    j += 1
            j += 1
            toks.append(Tok('str', src[i:j], i, j))
            i = j
            continue
        if c == "'" or (c == 'b' and i + 1 < n and src[i + 1] == "'"):
            k = i + (1 if c == 'b' else 0)
            # char literal or lifetime
            if k + 1 < n and src[k + 1] == '\\':
                j = k + 2
                # escaped char: find closing quote
                while j < n and src[j] != "'":
                    j += 1
                j += 1
                toks.append(Tok('char', src[i:j], i, j))
                i = j
                continue
            if k + 2 < n and src[k + 2] == "'":
                j = k + 3
                toks.append(Tok('char', src[i:j], i, j))
                i = j
                continue
            # multi-byte char literal like '†'
            mm = re.match(r"'[^'\\\n]'", src[k:k + 8])
            if mm:
                j = k + len(mm.group(0))
                toks.append(Tok('char', src[i:j], i, j))
                i = j
                continue
            # lifetime
            mm = IDENT.match(src, k + 1)
            if mm and c == "'":
                toks.append(Tok('lifetime', src[i:mm.end()], i, mm.end()))
                i = mm.end()
                continue
            raise ValueError('cannot lex quote at %d: %r' % (i, src[i:i + 20]))
        if IDENT_START.match(c):
            mm = IDENT.match(src, i)
            toks.append(Tok('ident', mm.group(0), i, mm.end()))
            i = mm.end()
            continue
        if c.isdigit():
            mm = NUM.match(src, i)
            # avoid swallowing range `0..n`
            text = mm.group(0)
            if '.' in text and src.startswith('..', i + text.index('.')):
                text = text[:text.index('.')]
            toks.append(Tok('num', text, i, i + len(text)))
            i += len(text)
            continue
        toks.append(Tok('punct', c, i, i + 1))
        i += 1
    return toks


OPEN = {'(': ')', '[': ']', '{': '}'}
CLOSE = {')', ']', '}'}


def match_close(toks: List[Tok], i: int) -> int:
    """toks[i] is an opening bracket; return index of its matching close."""
    depth = 0
    j = i
    while j < len(toks):
        t = toks[j]
        if t.kind == 'punct':
            if t.text in OPEN:
                depth += 1
            elif t.text in CLOSE:
                depth -= 1
                if depth == 0:
                    return j
        j += 1
    raise ValueError('unbalanced bracket at token %d' % i)


@dataclass
class Item:
    kind: str            # fn, struct, const, static, macro, impl, mod, enum, type, trait, use, other
    name: str
    path: str            # e.g. "Tags::get_string", "Iterator for TagsIter::next", "read_u64"
    start: int           # char offset of first token of the item proper (after attrs, incl. visibility)
    end: int             # char offset one past the last char
    attrs_start: int     # char offset where attrs/doc comments begin
    body_open: int = -1  # char offset of '{' of body (fn, impl)
    body_close: int = -1 # char offset of matching '}'
    fn_kw: int = -1      # char offset of `fn` keyword
    impl_header: str = ''
    children: list = field(default_factory=list)
    attrs: str = ''


QUALS = {'pub', 'unsafe', 'const', 'async', 'extern', 'default'}


def norm_impl_header(toks: List[Tok]) -> str:
    """Normalise `impl<'a, T: X> Iterator for TagsIter<'a>` -> `Iterator for TagsIter`."""
    # drop leading generics
    out = []
    i = 0
    if i < len(toks) and toks[i].text == '<':
        depth = 0
        while i < len(toks):
            if toks[i].text == '<':
                depth += 1
            elif toks[i].text == '>':
                depth -= 1
                if depth == 0:
                    i += 1
                    break
            i += 1
    depth = 0
    while i < len(toks):
        t = toks[i]
        if t.text == '<':
            depth += 1
        elif t.text == '>':
            depth -= 1
        elif depth == 0:
            if t.kind == 'ident' and t.text == 'where':
                break
            out.append(t.text)
        i += 1
    s = ' '.join(out)
    s = s.replace(' : : ', '::').replace(' :: ', '::').replace('& ', '&').replace('[ ', '[').replace(' ]', ']')
    return s


def parse_items(src: str, toks: List[Tok] = None, lo=0, hi=None, prefix='') -> List[Item]:
    if toks is None:
        toks = tokenize(src)
    if hi is None:
        hi = len(toks)
    items = []
    i = lo
    while i < hi:
        t = toks[i]
        attrs_start_tok = i
        # attributes
        while i < hi and toks[i].text == '#':
            j = i + 1
            if j < hi and toks[j].text == '!':
                j += 1
            if j < hi and toks[j].text == '[':
                i = match_close(toks, j) + 1
            else:
                break
        if i >= hi:
            break
        item_start_tok = i
        # visibility / qualifiers
        while i < hi and toks[i].kind == 'ident' and toks[i].text in QUALS:
            if toks[i].text == 'pub' and i + 1 < hi and toks[i + 1].text == '(':
                i = match_close(toks, i + 1) + 1
            elif toks[i].text == 'extern' and i + 1 < hi and toks[i + 1].kind == 'str':
                i += 2
            elif toks[i].text == 'const' and i + 1 < hi and toks[i + 1].kind == 'ident' \
                    and toks[i + 1].text not in QUALS and toks[i + 1].text != 'fn':
                break  # `const NAME: ...`
            else:
                i += 1
        if i >= hi:
            break
        kw = toks[i]
        a0 = toks[attrs_start_tok].start
        s0 = toks[item_start_tok].start
        attrs_text = src[a0:s0]

        def finish_semicolon(k):
            # scan to `;` at depth 0
            j = k
            while j < hi:
                if toks[j].kind == 'punct' and toks[j].text in OPEN:
                    j = match_close(toks, j) + 1
                    continue
                if toks[j].text == ';':
                    return j
                j += 1
            raise ValueError('no ; for item at %d' % toks[k].start)

        if kw.kind == 'ident' and kw.text == 'fn':
            name = toks[i + 1].text
            # find body: first `{` at depth 0 after params; or `;` (trait decl)
            j = i + 2
            body = None
            while j < hi:
                if toks[j].text in ('(', '['):
                    j = match_close(toks, j) + 1
                    continue
                if toks[j].text == '{':
                    body = j
                    break
                if toks[j].text == ';':
                    break
                j += 1
            if body is None:
                it = Item('fn', name, prefix + name, s0, toks[j].end, a0, fn_kw=kw.start, attrs=attrs_text)
                items.append(it)
                i = j + 1
                continue
            close = match_close(toks, body)
            it = Item('fn', name, prefix + name, s0, toks[close].end, a0,
                      body_open=toks[body].start, body_close=toks[close].start, fn_kw=kw.start,
                      attrs=attrs_text)
            items.append(it)
            i = close + 1
            continue
        if kw.kind == 'ident' and kw.text == 'impl':
            j = i + 1
            while j < hi and toks[j].text != '{':
                if toks[j].text in ('(', '['):
                    j = match_close(toks, j) + 1
                    continue
                j += 1
            header = norm_impl_header(toks[i + 1:j])
            close = match_close(toks, j)
            it = Item('impl', header, prefix + header, s0, toks[close].end, a0,
                      body_open=toks[j].start, body_close=toks[close].start, impl_header=src[s0:toks[j].start],
                      attrs=attrs_text)
            it.children = parse_items(src, toks, j + 1, close, prefix + header + '::')
            items.append(it)
            i = close + 1
            continue
        if kw.kind == 'ident' and kw.text in ('mod', 'trait'):
            name = toks[i + 1].text
            j = i + 2
            while j < hi and toks[j].text not in ('{', ';'):
                j += 1
            if toks[j].text == ';':
                items.append(Item(kw.text, name, prefix + name, s0, toks[j].end, a0, attrs=attrs_text))
                i = j + 1
                continue
            close = match_close(toks, j)
            it = Item(kw.text, name, prefix + name, s0, toks[close].end, a0,
                      body_open=toks[j].start, body_close=toks[close].start, attrs=attrs_text)
            it.children = parse_items(src, toks, j + 1, close, prefix + name + '::')
            items.append(it)
            i = close + 1
            continue
        if kw.kind == 'ident' and kw.text in ('struct', 'enum', 'union'):
            name = toks[i + 1].text
            j = i + 2
            # struct X; | struct X(..); | struct X {..} | with generics/where
            end = None
            while j < hi:
                if toks[j].text == '(':
                    j = match_close(toks, j) + 1
                    continue
                if toks[j].text == '{':
                    end = match_close(toks, j)
                    break
                if toks[j].text == ';':
                    end = j
                    break
                j += 1
            items.append(Item(kw.text, name, prefix + kw.text + ' ' + name, s0, toks[end].end, a0, attrs=attrs_text))
            i = end + 1
            continue
        if kw.kind == 'ident' and kw.text in ('const', 'static'):
            k = i + 1
            if toks[k].text == 'mut':
                k += 1
            name = toks[k].text
            end = finish_semicolon(k)
            items.append(Item(kw.text, name, prefix + kw.text + ' ' + name, s0, toks[end].end, a0, attrs=attrs_text))
            i = end + 1
            continue
        if kw.kind == 'ident' and kw.text == 'macro_rules':
            name = toks[i + 2].text
            j = i + 3
            close = match_close(toks, j)
            end = close
            if close + 1 < hi and toks[close + 1].text == ';':
                end = close + 1
            items.append(Item('macro', name, prefix + 'macro ' + name, s0, toks[end].end, a0,
                              body_open=toks[j].start, body_close=toks[close].start, attrs=attrs_text))
            i = end + 1
            continue
        if kw.kind == 'ident' and kw.text in ('use', 'type'):
            end = finish_semicolon(i)
            nm = toks[i + 1].text
            items.append(Item(kw.text, nm, prefix + kw.text + ' ' + nm, s0, toks[end].end, a0, attrs=attrs_text))
            i = end + 1
            continue
        # macro invocation at item level, e.g. include!("macros.rs");
        if kw.kind == 'ident' and i + 1 < hi and toks[i + 1].text == '!':
            j = i + 2
            close = match_close(toks, j)
            end = close
            if close + 1 < hi and toks[close + 1].text == ';':
                end = close + 1
            items.append(Item('other', kw.text, prefix + 'invoke ' + kw.text, s0, toks[end].end, a0, attrs=attrs_text))
            i = end + 1
            continue
        raise ValueError('cannot parse item at offset %d: %r' % (kw.start, src[kw.start:kw.start + 40]))
    return items


def flatten(items: List[Item]) -> Dict[str, Item]:
    out = {}

    def rec(its):
        for it in its:
            key = it.path
            # disambiguate duplicates (e.g. two `impl Add<Time> for Time` with different generics)
            k = key
            n = 2
            while k in out:
                k = '%s#%d' % (key, n)
                n += 1
            out[k] = it
            rec(it.children)
    rec(items)
    return out


def line_of(src: str, off: int) -> int:
    return src.count('\n', 0, off) + 1


if __name__ == '__main__':
    import sys
    src = open(sys.argv[1]).read()
    for k, it in flatten(parse_items(src)).items():
        print('%-60s %-6s L%d-%d' % (k, it.kind, line_of(src, it.start), line_of(src, it.end)))
