#!/usr/bin/env python3
"""Weaver: assembles a Verus unit from
   * prelude/*.rs   (trusted environment, stand-in types, assumed std specifications)
   * spec/*.rs      (pure spec functions and lemmas)
   * functions/items extracted VERBATIM from /repo by item path, passed through the closed list
     of rewrite rules (DESIGN.md 2.3) and spliced with the contracts in contracts/*.vspec.

Nothing here interprets the repo code: text is located by item path (tools/rustlex.py), copied,
rewritten by the listed token-level rules, and annotated.  Every rewrite application is logged.
"""
import os
import re
import sys
from dataclasses import dataclass, field
from typing import Dict, List, Tuple, Optional

sys.path.insert(0, os.path.dirname(os.path.abspath(__file__)))
import rustlex
from rustlex import tokenize, match_close, Tok

VERIF = os.path.dirname(os.path.dirname(os.path.abspath(__file__)))


class LostAnchor(Exception):
    """A named item / loop / anchor is not present in the repo text: undecided, never an alarm."""


class WeaveError(Exception):
    pass


# --------------------------------------------------------------------------- contracts

@dataclass
class Contract:
    file: str
    path: str
    ret: Optional[str] = None
    requires: str = ''
    ensures: str = ''
    decreases: str = ''
    loops: Dict[int, Dict[str, str]] = field(default_factory=dict)
    ats: List[Tuple[str, list, str]] = field(default_factory=list)
    rewrites: List[str] = field(default_factory=list)   # opt-in rewrite rules for this fn
    attrs: List[str] = field(default_factory=list)      # verifier attributes, e.g. rlimit
    nloops: Optional[int] = None
    common_inv: str = ''   # clauses added to every loop invariant of the fn
    ghostparams: List[str] = field(default_factory=list)            # R9: extra ghost parameters
    ghostargs: List[Tuple[str, str]] = field(default_factory=list)  # R9: (callee regex, extra ghost argument)
    closures: Dict[str, Dict[str, str]] = field(default_factory=dict)  # let-bound closure name -> {ret, requires, ensures}
    mustfail: List[str] = field(default_factory=list)     # extra must-fail postconditions (reachability of conditional clauses)
    slice: Dict[str, str] = field(default_factory=dict)   # R34: statement range of a larger fn verified as a fn of its own
    src: str = ''       # vspec file
    line: int = 0
    opens: bool = False  # has any clause


def load_contracts(cdir=None) -> Dict[Tuple[str, str], Contract]:
    cdir = cdir or os.path.join(VERIF, 'contracts')
    out = {}
    for fn in sorted(os.listdir(cdir)):
        if not fn.endswith('.vspec'):
            continue
        cur = None
        sect = None
        sect_arg = None
        buf = []

        def flush():
            nonlocal buf, sect, sect_arg
            if cur is None or sect is None:
                buf = []
                return
            text = '\n'.join(buf).rstrip()
            if sect == 'requires':
                cur.requires += text + '\n'
            elif sect == 'ensures':
                cur.ensures += text + '\n'
            elif sect == 'decreases':
                cur.decreases += text + '\n'
            elif sect == 'loop':
                cur.loops[sect_arg] = parse_loop_spec(text)
            elif sect == 'at':
                cur.ats.append((sect_arg[0], sect_arg[1:], text))
            elif sect == 'closure':
                d = {}
                k = None
                for line in text.split('\n'):
                    m = re.match(r'\s*(ret|requires|ensures)\b(.*)$', line)
                    if m:
                        k = m.group(1)
                        d[k] = m.group(2).strip() + '\n'
                    elif k:
                        d[k] += line + '\n'
                cur.closures[sect_arg] = d
            buf = []
            sect = None

        for ln, line in enumerate(open(os.path.join(cdir, fn)), 1):
            s = line.rstrip('\n')
            st = s.strip()
            if st.startswith('@'):
                flush()
                parts = st.split(None, 1)
                d = parts[0]
                arg = parts[1] if len(parts) > 1 else ''
                if d == '@fn':
                    f, p = arg.split(None, 1)
                    cur = Contract(f, p.strip(), src=fn, line=ln)
                    key = (cur.file, cur.path)
                    if key in out:
                        raise WeaveError('%s:%d duplicate contract for %s' % (fn, ln, key))
                    out[key] = cur
                elif d == '@end':
                    cur = None
                elif d == '@ret':
                    cur.ret = arg.strip()
                elif d in ('@requires', '@ensures', '@decreases'):
                    sect = d[1:]
                    if arg:
                        buf.append(arg)
                elif d == '@loop':
                    sect = 'loop'
                    sect_arg = int(arg.split()[0])
                    rest = arg.split(None, 1)
                    if len(rest) > 1:
                        buf.append(rest[1])
                elif d == '@at':
                    sect = 'at'
                    sect_arg = parse_at_args(arg)
                elif d == '@rewrite':
                    cur.rewrites.extend(arg.split())
                elif d == '@attr':
                    cur.attrs.append(arg)
                elif d == '@ghostparam':
                    cur.ghostparams.append(arg.strip())
                elif d == '@ghostarg':
                    rx, a2 = arg.split(None, 1)
                    cur.ghostargs.append((rx, a2.strip()))
                elif d == '@closure':
                    sect = 'closure'
                    sect_arg = arg.strip()
                elif d == '@common_invariant':
                    cur.common_inv += '        ' + arg.rstrip(',') + ',\n'
                elif d == '@nloops':
                    cur.nloops = int(arg)
                elif d == '@mustfail_ensures':
                    cur.mustfail.append(arg.strip())
                elif d in ('@slice_from', '@slice_to'):
                    m = re.match(r'/(.*)/\s*$', arg.strip())
                    cur.slice[d[7:]] = m.group(1)
                elif d in ('@slice_sig', '@slice_tail'):
                    cur.slice[d[7:]] = arg.strip()
                else:
                    raise WeaveError('%s:%d unknown directive %s' % (fn, ln, d))
            elif st.startswith('#') and sect is None:
                continue
            else:
                if sect is not None:
                    buf.append(s)
        flush()
    return out


def parse_at_args(arg):
    # forms: fn_start | fn_end | loop_top N | loop_end N | before_loop N | after_loop N
    #        before /regex/ [k] | after /regex/ [k] | before_stmt /regex/ [k]
    #        (before_stmt: before the first line of the statement the matching line belongs to)
    m = re.match(r'(before_stmt|before|after)\s+/(.*)/\s*(\d+)?\s*$', arg)
    if m:
        return [m.group(1), m.group(2), int(m.group(3) or 1)]
    parts = arg.split()
    if parts[0] in ('fn_start', 'fn_end'):
        return [parts[0]]
    return [parts[0], int(parts[1])]


def parse_loop_spec(text):
    """text holds `iter NAME`, `invariant ...`, `invariant_except_break`, `ensures ...`, `decreases ...`
    sections, each starting at a line whose first word is the keyword."""
    d = {}
    cur = None
    for line in text.split('\n'):
        st = line.strip()
        m = re.match(r'(invariant_except_break|invariant|ensures|decreases|iter)\b(.*)$', st)
        if m and (cur is None or not line.startswith('      ')):
            cur = m.group(1)
            d.setdefault(cur, '')
            d[cur] += m.group(2).strip() + '\n'
        elif cur is not None:
            d[cur] += line + '\n'
    return d


# --------------------------------------------------------------------------- repo access

class Repo:
    def __init__(self, root):
        self.root = root
        self.cache = {}

    def file(self, rel):
        if rel not in self.cache:
            p = os.path.join(self.root, rel)
            if not os.path.exists(p):
                raise LostAnchor('file %s not found' % rel)
            src = open(p).read()
            try:
                items = rustlex.flatten(rustlex.parse_items(src))
            except ValueError as e:
                raise LostAnchor('cannot lex %s: %s' % (rel, e))
            self.cache[rel] = (src, items)
        return self.cache[rel]

    def item(self, rel, path):
        src, items = self.file(rel)
        if path not in items:
            raise LostAnchor('item `%s` not found in %s' % (path, rel))
        return src, items[path]


# --------------------------------------------------------------------------- rewrites

class RewriteLog:
    def __init__(self):
        self.entries = []

    def add(self, rule, site, n=1):
        if n:
            self.entries.append({'rule': rule, 'site': site, 'count': n})


def balanced_end(s, i):
    """s[i] is an opening bracket; return index of matching close (string-level, skipping literals)."""
    toks = tokenize(s[i:])
    j = match_close(toks, 0)
    return i + toks[j].start


def rw_R2(text, site, log):
    # .to_ne_bytes() etc
    text, n = re.subn(r'\.to_(ne|be|le)_bytes\(\)', r'.v_to_\1_bytes()', text)
    log.add('R2(to_XX_bytes->v_to_XX_bytes)', site, n)
    # uN::from_ne_bytes(E.try_into().unwrap())
    cnt = 0
    while True:
        m = re.search(r'\b(u16|u32|u64)::from_(ne|be|le)_bytes\(', text)
        if not m:
            break
        op = m.end() - 1
        cl = balanced_end(text, op)
        inner = text[op + 1:cl].strip()
        suffix = '.try_into().unwrap()'
        if inner.replace(' ', '').replace('\n', '').endswith(suffix):
            k = inner.rfind('.try_into')
            core = inner[:k].rstrip()
            # strip trailing whitespace/newlines before .try_into
            text = text[:m.start()] + 'v_%s_from_%s(&%s)' % (m.group(1), m.group(2), core) + text[cl + 1:]
            cnt += 1
        else:
            raise WeaveError('R2: from_%s_bytes argument not of the form E.try_into().unwrap() at %s: %r' % (m.group(2), site, inner))
    log.add('R2(uN::from_XX_bytes(E.try_into().unwrap())->v_uN_from_XX(&E))', site, cnt)
    return text


def rw_R3(text, site, log):
    cnt = 0
    while True:
        m = re.search(r'\*\s*((?:\$?\w+)(?:\.\w+)*)\.get_unchecked_mut\(', text)
        if not m:
            break
        op = m.end() - 1
        cl = balanced_end(text, op)
        idx = text[op + 1:cl]
        text = text[:m.start()] + '%s[%s]' % (m.group(1), idx) + text[cl + 1:]
        cnt += 1
    if cnt:
        text, n2 = re.subn(r'\bunsafe\s*\{', '{', text)
    log.add('R3(*E.get_unchecked_mut(I)->E[I]; unsafe{}->{})', site, cnt)
    return text


def rw_R6(text, site, log):
    cnt = 0
    while True:
        m = re.search(r'\bassert_eq!\(', text)
        if not m:
            break
        op = m.end() - 1
        cl = balanced_end(text, op)
        inner = text[op + 1:cl]
        # split at top-level comma
        toks = tokenize(inner)
        depth = 0
        cut = None
        for t in toks:
            if t.kind == 'punct' and t.text in '([{':
                depth += 1
            elif t.kind == 'punct' and t.text in ')]}':
                depth -= 1
            elif t.text == ',' and depth == 0:
                cut = t.start
                break
        a, b = inner[:cut], inner[cut + 1:]
        text = text[:m.start()] + 'assert!((%s) == (%s))' % (a.strip(), b.strip()) + text[cl + 1:]
        cnt += 1
    log.add('R6(assert_eq!(A,B)->assert!(A==B))', site, cnt)
    return text


def find_loops(body: str):
    """Return list of (kw_tok_index, toks) loop sites in source order for while/loop/for."""
    toks = tokenize(body)
    out = []
    for i, t in enumerate(toks):
        if t.kind == 'ident' and t.text in ('while', 'loop', 'for'):
            # `for` in `impl X for Y` or HRTB not in fn bodies; labelled loops fine
            # exclude `for<'a>`
            if t.text == 'for' and i + 1 < len(toks) and toks[i + 1].text == '<':
                continue
            out.append(i)
    return toks, out


def loop_body_open(toks, i):
    """index of `{` that opens the body of the loop whose keyword is toks[i]."""
    j = i + 1
    while j < len(toks):
        t = toks[j]
        if t.kind == 'punct' and t.text in ('(', '['):
            j = match_close(toks, j) + 1
            continue
        if t.text == '{':
            return j
        j += 1
    raise WeaveError('loop body not found')


def rw_R4_for_desugar(text, which, site, log):
    """for PAT in EXPR BODY -> let mut vit_N = EXPR; loop { match vit_N.next() { Some(PAT) => BODY, None => break, } }
    applied to the loop ordinals listed in `which` (1-based, within this fn text)."""
    for n in sorted(which, reverse=True):
        toks, loops = find_loops(text)
        if n > len(loops):
            raise LostAnchor('%s: loop %d not found for R4' % (site, n))
        i = loops[n - 1]
        if toks[i].text != 'for':
            raise LostAnchor('%s: loop %d is not a `for` loop (R4)' % (site, n))
        # label?
        start = toks[i].start
        label = ''
        if i >= 2 and toks[i - 1].text == ':' and toks[i - 2].kind == 'lifetime':
            start = toks[i - 2].start
            label = toks[i - 2].text + ': '
        # find `in` at depth 0
        j = i + 1
        while not (toks[j].kind == 'ident' and toks[j].text == 'in'):
            if toks[j].kind == 'punct' and toks[j].text in '([':
                j = match_close(toks, j)
            j += 1
        pat = text[toks[i + 1].start:toks[j].start].strip()
        bo = loop_body_open(toks, j)
        expr = text[toks[j + 1].start:toks[bo].start].strip()
        bc = match_close(toks, bo)
        body = text[toks[bo].start:toks[bc].end]
        men = re.match(r'^(.*)\.enumerate\(\)$', expr, re.S)
        mpat = re.match(r'^\(\s*(\w+)\s*,\s*(.+)\)$', pat, re.S)
        if men and mpat:
            # R26: `for (i, x) in E.enumerate()`: the counter Enumerate keeps is made explicit (incremented when the
            # element is produced, exactly as Enumerate::next does)
            new = ('let mut vit_%d = %s; let mut ven_%d: usize = 0; %sloop { match vit_%d.next() { Some(%s) => { let %s = ven_%d; ven_%d += 1; %s }, None => { break; } } }'
                   % (n, men.group(1), n, label, n, mpat.group(2), mpat.group(1), n, n, body))
            log.add('R26(enumerate counter made explicit)', '%s loop %d' % (site, n))
        else:
            new = ('let mut vit_%d = %s; %sloop { match vit_%d.next() { Some(%s) => %s, None => { break; } } }'
                   % (n, expr, label, n, pat, body))
        text = text[:start] + new + text[toks[bc].end:]
        log.add('R4(for-desugar)', '%s loop %d' % (site, n))
    return text


def rw_R27_slice_enumerate(text, which, site, log, byref=False):
    """for (i, x) in S.iter().enumerate() BODY  (S a slice/array of Copy integers)  ->
       for i in 0..S.len() { let x = S[i]; BODY }   (x bound by value: std defines `&u8 op u8` as `*a op b`; this Verus
       panics on bit operators applied to a reference)"""
    for n in sorted(which, reverse=True):
        toks, loops = find_loops(text)
        if n > len(loops):
            raise LostAnchor('%s: loop %d not found for R27' % (site, n))
        i = loops[n - 1]
        if toks[i].text != 'for':
            raise LostAnchor('%s: loop %d is not a for loop (R27)' % (site, n))
        j = i + 1
        while not (toks[j].kind == 'ident' and toks[j].text == 'in'):
            if toks[j].kind == 'punct' and toks[j].text in '([':
                j = match_close(toks, j)
            j += 1
        pat = text[toks[i + 1].start:toks[j].start].strip()
        bo = loop_body_open(toks, j)
        expr = text[toks[j + 1].start:toks[bo].start].strip()
        m = re.match(r'^(.*)\.iter\(\)\.enumerate\(\)$', expr, re.S)
        mp = re.match(r'^\(\s*(\w+)\s*,\s*(\w+)\s*\)$', pat)
        if not m or not mp:
            raise LostAnchor('%s: loop %d is not `for (i, x) in S.iter().enumerate()` (R27)' % (site, n))
        new_head = 'for %s in 0..%s.len() ' % (mp.group(1), m.group(1))
        text = text[:toks[i].start] + new_head + '{ let %s = %s%s[%s]; ' % (mp.group(2), '&' if byref else '', m.group(1), mp.group(1)) + text[toks[bo].end:]
        log.add('R31(slice .iter().enumerate() -> index loop, element bound by reference)' if byref else 'R27(slice .iter().enumerate() -> index loop)', '%s loop %d' % (site, n))
    return text


def rw_R12_break_value(text, which, site, log):
    """`loop { .. break V; .. }` used as value -> `{ let mut vbr_N = None; loop { .. { vbr_N = Some(V); break; } .. } vbr_N.unwrap() }`"""
    for n in sorted(which, reverse=True):
        toks, loops = find_loops(text)
        if n > len(loops):
            raise LostAnchor('%s: loop %d not found for R12' % (site, n))
        i = loops[n - 1]
        if toks[i].text != 'loop':
            raise LostAnchor('%s: loop %d is not `loop` (R12)' % (site, n))
        bo = loop_body_open(toks, i)
        bc = match_close(toks, bo)
        body = text[toks[bo].start:toks[bc].end]
        # replace `break EXPR;` inside body (not nested loops: the repo has none here)
        btoks = tokenize(body)
        out = ''
        last = 0
        k = 0
        cnt = 0
        while k < len(btoks):
            t = btoks[k]
            if t.kind == 'ident' and t.text == 'break' and btoks[k + 1].text != ';':
                # find terminating ; at depth 0
                j = k + 1
                while btoks[j].text != ';':
                    if btoks[j].kind == 'punct' and btoks[j].text in '([{':
                        j = match_close(btoks, j)
                    j += 1
                val = body[btoks[k + 1].start:btoks[j].start]
                out += body[last:t.start] + '{ vbr_%d = Some(%s); break; }' % (n, val)
                last = btoks[j].end
                k = j + 1
                cnt += 1
                continue
            k += 1
        out += body[last:]
        new = '{ let mut vbr_%d = None; loop %s vbr_%d.unwrap() }' % (n, out, n)
        text = text[:toks[i].start] + new + text[toks[bc].end:]
        log.add('R12(break-value)', '%s loop %d (%d breaks)' % (site, n, cnt))
    return text


def receiver_start(toks, i):
    """toks[i] is the `.` before a method name; return index of the first token of the receiver expression
    (a postfix chain of idents, `.`, `::`, `?`, and bracketed groups)."""
    j = i - 1
    while j >= 0:
        t = toks[j]
        if t.kind == 'punct' and t.text in ')]':
            # find matching open
            depth = 0
            k = j
            while k >= 0:
                if toks[k].kind == 'punct' and toks[k].text in ')]}':
                    depth += 1
                elif toks[k].kind == 'punct' and toks[k].text in '([{':
                    depth -= 1
                    if depth == 0:
                        break
                k -= 1
            j = k - 1
            continue
        if t.kind in ('ident', 'num') and t.text not in ('return', 'if', 'in', 'match', 'let', 'mut', 'else', 'while'):
            j -= 1
            continue
        if t.kind == 'punct' and t.text in '.?:':
            j -= 1
            continue
        break
    return j + 1


def rw_R9(text, c, site, log, header_only=False):
    """R9: thread the ghost world: extra `Tracked(..)` parameters on the fn, extra ghost arguments at listed calls."""
    if c is None or (not c.ghostparams and not c.ghostargs):
        return text
    # parameters: insert before the closing paren of the fn's parameter list
    if c.ghostparams:
        toks = tokenize(text)
        i = 0
        while not (toks[i].kind == 'ident' and toks[i].text == 'fn'):
            i += 1
        j = i + 2
        if toks[j].text == '<':
            depth = 0
            while True:
                if toks[j].text == '<':
                    depth += 1
                elif toks[j].text == '>' and toks[j - 1].text != '-':
                    depth -= 1
                    if depth == 0:
                        j += 1
                        break
                j += 1
        cl = match_close(toks, j)
        inner = text[toks[j].end:toks[cl].start].strip()
        sep = '' if inner == '' or inner.endswith(',') else ', '
        text = text[:toks[cl].start] + sep + ', '.join(c.ghostparams) + text[toks[cl].start:]
        log.add('R9(ghost parameter)', site, len(c.ghostparams))
    if header_only:
        return text
    for rx, arg in c.ghostargs:
        cnt = 0
        pos = 0
        while True:
            m = re.compile(r'(?:%s)\s*\(' % rx).search(text, pos)
            if not m:
                break
            op = m.end() - 1
            cl = balanced_end(text, op)
            inner = text[op + 1:cl].strip()
            sep = '' if inner == '' else (' ' if inner.endswith(',') else ', ')
            text = text[:cl] + sep + arg + text[cl:]
            pos = cl + len(sep) + len(arg) + 1
            cnt += 1
        log.add('R9(ghost argument %s at calls of /%s/)' % (arg, rx), site, cnt)
    return text


def rw_R5_any(text, site, log):
    """RECV.any(|PAT| BODY) -> { let mut vany_N = false; let mut vait_N = RECV; loop { match vait_N.next() {
       Some(PAT) => { if BODY { vany_N = true; break; } }, None => { break; } } } vany_N }
    (the definition of core::iter::Iterator::any with the closure body inlined)."""
    n = 0
    while True:
        toks = tokenize(text)
        hit = None
        for i, t in enumerate(toks):
            if t.text == '.' and i + 3 < len(toks) and toks[i + 1].text == 'any' and toks[i + 2].text == '(' and toks[i + 3].text == '|':
                hit = i
                break
        if hit is None:
            break
        n += 1
        i = hit
        rs = receiver_start(toks, i)
        recv = text[toks[rs].start:toks[i].start]
        close = match_close(toks, i + 2)
        # closure: |PAT| BODY
        j = i + 4
        while toks[j].text != '|':
            j += 1
        pat = text[toks[i + 4].start:toks[j].start].strip()
        body = text[toks[j + 1].start:toks[close].start].strip()
        new = ('{ let mut vany_%d = false; let mut vait_%d = %s; loop { match vait_%d.next() { Some(%s) => { if %s { vany_%d = true; break; } }, None => { break; } } } vany_%d }'
               % (n, n, recv, n, pat, body, n, n))
        text = text[:toks[rs].start] + new + text[toks[close].end:]
    log.add('R5(ITER.any(|x| P) -> explicit loop)', site, n)
    return text


def rw_R17(text, kind, site, log):
    """E.try_into().unwrap() -> v_slice_to_<kind>(&E)"""
    n = 0
    while True:
        toks = tokenize(text)
        hit = None
        for i, t in enumerate(toks):
            if t.text == '.' and i + 7 < len(toks) and [x.text for x in toks[i + 1:i + 8]] == ['try_into', '(', ')', '.', 'unwrap', '(', ')']:
                hit = i
                break
        if hit is None:
            break
        n += 1
        rs = receiver_start(toks, hit)
        recv = text[toks[rs].start:toks[hit].start]
        text = text[:toks[rs].start] + 'v_slice_to_%s(&%s)' % (kind, recv.strip()) + text[toks[hit + 7].end:]
    log.add('R17(E.try_into().unwrap() -> v_slice_to_%s(&E))' % kind, site, n)
    return text


def expand_macro_calls(text, macros: Dict[str, Tuple[List[str], str]], site, log):
    """R7: textually expand invocations of the listed macro_rules! (single arm, $x:expr params only)."""
    for name, (params, body) in macros.items():
        cnt = 0
        while True:
            m = re.search(r'\b%s!\(' % re.escape(name), text)
            if not m:
                break
            op = m.end() - 1
            cl = balanced_end(text, op)
            inner = text[op + 1:cl]
            toks = tokenize(inner)
            args = []
            depth = 0
            last = 0
            for t in toks:
                if t.kind == 'punct' and t.text in '([{':
                    depth += 1
                elif t.kind == 'punct' and t.text in ')]}':
                    depth -= 1
                elif t.text == ',' and depth == 0:
                    args.append(inner[last:t.start].strip())
                    last = t.end
            tail = inner[last:].strip()
            if tail:
                args.append(tail)
            if len(args) != len(params):
                raise WeaveError('R7: %s! arity mismatch at %s' % (name, site))
            exp = body
            cnt += 1
            # hygiene: suffix macro-local let names
            for lm in set(re.findall(r'\blet\s+(?:mut\s+)?(\w+)', body)):
                exp = re.sub(r'\b%s\b' % lm, '%s_m%d' % (lm, cnt), exp)
            for p, a in zip(params, args):
                exp = exp.replace('$' + p, '(%s)' % a)
            exp = exp.replace('$crate::', 'crate::')
            text = text[:m.start()] + exp + text[cl + 1:]
        log.add('R7(expand %s!)' % name, site, cnt)
    return text


def macro_def(src, item):
    """Parse `macro_rules! name { (params) => {{ body }}; }` with $x:expr params."""
    text = src[item.body_open + 1:item.body_close]
    toks = tokenize(text)
    if toks[0].text != '(':
        raise WeaveError('macro shape')
    pc = match_close(toks, 0)
    params = re.findall(r'\$(\w+)\s*:\s*expr', text[toks[0].start:toks[pc].end])
    # => {
    j = pc + 1
    assert toks[j].text == '=' and toks[j + 1].text == '>'
    bo = j + 2
    bc = match_close(toks, bo)
    body = text[toks[bo].start + 1:toks[bc].start]
    return params, body.strip()


def decode_bytestr(tok_text):
    """bytes denoted by a Rust byte-string / string literal token."""
    t = tok_text
    if t.startswith('b'):
        t = t[1:]
    if t.startswith('r'):
        h = len(t) - len(t[1:].lstrip('#')) - 1
        inner = t[1 + h + 1: len(t) - 1 - h]
        return inner.encode('utf-8')
    inner = t[1:-1]
    out = bytearray()
    i = 0
    while i < len(inner):
        c = inner[i]
        if c == '\\':
            n = inner[i + 1]
            if n == 'n': out.append(10); i += 2
            elif n == 'r': out.append(13); i += 2
            elif n == 't': out.append(9); i += 2
            elif n == '0': out.append(0); i += 2
            elif n == '\\': out.append(92); i += 2
            elif n == '"': out.append(34); i += 2
            elif n == "'": out.append(39); i += 2
            elif n == 'x':
                out.append(int(inner[i + 2:i + 4], 16)); i += 4
            elif n == '\n':
                i += 2
                while i < len(inner) and inner[i].isspace():
                    i += 1
            else:
                raise WeaveError('R16: unsupported escape \\%s' % n)
        else:
            out.extend(c.encode('utf-8'))
            i += 1
    return bytes(out)


def rw_R16(text, site, log):
    """byte-string literals b".." / br#".."# -> &[0x.., ..]; "lit".as_bytes() -> &[..] (same bytes, array notation:
    this Verus knows the contents of array literals but not of byte-string literals)."""
    toks = tokenize(text)
    out = ''
    last = 0
    cnt = 0
    i = 0
    while i < len(toks):
        t = toks[i]
        if t.kind == 'str' and t.text.startswith('b'):
            bs = decode_bytestr(t.text)
            rep = '(&[' + ', '.join('0x%02xu8' % b for b in bs) + '])'
            out += text[last:t.start] + rep
            last = t.end
            cnt += 1
        elif t.kind == 'str' and not t.text.startswith('b') and i + 4 < len(toks) and toks[i + 1].text == '.' \
                and toks[i + 2].text == 'as_bytes' and toks[i + 3].text == '(' and toks[i + 4].text == ')':
            bs = decode_bytestr(t.text)
            rep = '(&[' + ', '.join('0x%02xu8' % b for b in bs) + '])'
            out += text[last:t.start] + rep
            last = toks[i + 4].end
            cnt += 1
            i += 4
        i += 1
    out += text[last:]
    log.add('R16(byte-string literal -> array literal)', site, cnt)
    return out


def rw_R15(text, site, log):
    """VEC.extend(E) -> v_extend(&mut VEC, E)"""
    cnt = 0
    while True:
        m = re.search(r'\b(\w+)\.extend\(', text)
        if not m:
            break
        op = m.end() - 1
        cl = balanced_end(text, op)
        text = text[:m.start()] + 'v_extend(&mut %s, %s)' % (m.group(1), text[op + 1:cl].strip()) + text[cl + 1:]
        cnt += 1
    log.add('R15(VEC.extend(E)->v_extend(&mut VEC,E))', site, cnt)
    return text


def rw_R8(text, site, log):
    """format!("\\u{:04x}", E).as_bytes() -> v_fmt_u04x(E).as_slice(); format!("{}", E).as_bytes() -> v_fmt_dec(E as u64).as_slice()"""
    cnt = 0
    while True:
        m = re.search(r'format!\(', text)
        if not m:
            break
        op = m.end() - 1
        cl = balanced_end(text, op)
        inner = text[op + 1:cl]
        toks = tokenize(inner)
        lit = toks[0]
        if lit.kind != 'str':
            raise WeaveError('R8: format! without literal at ' + site)
        args = []
        depth = 0
        lastc = None
        for t in toks[1:]:
            if t.kind == 'punct' and t.text in '([{':
                depth += 1
            elif t.kind == 'punct' and t.text in ')]}':
                depth -= 1
            elif t.text == ',' and depth == 0:
                if lastc is not None:
                    args.append(inner[lastc:t.start].strip())
                lastc = t.end
        if lastc is not None and inner[lastc:].strip():
            args.append(inner[lastc:].strip())
        fmt = decode_bytestr(lit.text).decode('utf-8')
        pieces = re.split(r'(\{[^}]*\})', fmt)
        parts = []
        ai = 0
        for pc in pieces:
            if pc == '':
                continue
            if pc == '{}':
                a = args[ai]; ai += 1
                # `Display` of a reference to an integer is `Display` of the integer (std blanket impl for &T)
                if re.search(r'\.(deref|as_ref)\(\)$', a) and not a.lstrip().startswith('*'):
                    a = '*' + a
                parts.append('VPiece::Dec((%s) as u64)' % a)
            elif pc == '{:04x}':
                parts.append('VPiece::Hex4((%s) as u32)' % args[ai]); ai += 1
            elif pc.startswith('{'):
                raise WeaveError('R8: unsupported format spec %s at %s' % (pc, site))
            else:
                bs = pc.encode('utf-8')
                parts.append('VPiece::Lit(&[' + ', '.join('0x%02xu8' % b for b in bs) + '])')
        rest = text[cl + 1:]
        if not rest.startswith('.as_bytes()'):
            raise WeaveError('R8: format! result not used via .as_bytes() at ' + site)
        rep = 'v_format(&[%s]).as_slice()' % ', '.join(parts)
        text = text[:m.start()] + rep + rest[len('.as_bytes()'):]
        cnt += 1
    log.add('R8(format!(..).as_bytes() -> v_format(pieces).as_slice())', site, cnt)
    return text


def rw_R32_typed_format(text, kinds, site, log):
    """format!(LIT, a, b, ..) whose arguments are the repo's own Display types (opt-in, argument kinds given by the
    contract): -> v_format_string(&[VPiece::Lit(..), VPiece::Lit(v_disp_<kind>(&(a)).as_slice()), ..]).  The v_disp_*
    stand-ins (prelude/display.rs) state what each Display impl writes."""
    m = re.search(r'format!\(', text)
    if not m:
        raise LostAnchor('%s: no format! for R32' % site)
    op = m.end() - 1
    cl = balanced_end(text, op)
    inner = text[op + 1:cl]
    toks = tokenize(inner)
    lit = toks[0]
    if lit.kind != 'str':
        raise WeaveError('R32: format! without literal at ' + site)
    args = []
    depth = 0
    lastc = None
    for t in toks[1:]:
        if t.kind == 'punct' and t.text in '([{':
            depth += 1
        elif t.kind == 'punct' and t.text in ')]}':
            depth -= 1
        elif t.text == ',' and depth == 0:
            if lastc is not None:
                args.append(inner[lastc:t.start].strip())
            lastc = t.end
    if lastc is not None and inner[lastc:].strip():
        args.append(inner[lastc:].strip())
    fmt = decode_bytestr(lit.text).decode('utf-8')
    pieces = re.split(r'(\{[^}]*\})', fmt)
    holes = [pc for pc in pieces if pc.startswith('{')]
    if any(h != '{}' for h in holes) or len(holes) != len(args) or len(args) != len(kinds):
        raise LostAnchor('%s: format! has %d holes / %d arguments, contract lists %d kinds (R32)' % (site, len(holes), len(args), len(kinds)))
    parts = []
    ai = 0
    for pc in pieces:
        if pc == '':
            continue
        if pc == '{}':
            parts.append('VPiece::Lit(v_disp_%s(%s).as_slice())' % (kinds[ai], args[ai])); ai += 1
        else:
            bs = pc.encode('utf-8')
            parts.append('VPiece::Lit(&[' + ', '.join('0x%02xu8' % b for b in bs) + '])')
    text = text[:m.start()] + 'v_format_string(&[%s])' % ', '.join(parts) + text[cl + 1:]
    log.add('R32(format! over the repo\'s Display types -> v_format_string(pieces))', site, 1)
    return text


def rw_R11(text, site, log):
    """core::iter::repeat(X).take(N) -> v_repeat_take(X, N)"""
    cnt = 0
    while True:
        m = re.search(r'\b(?:core|std)::iter::repeat\(', text)
        if not m:
            break
        op = m.end() - 1
        cl = balanced_end(text, op)
        x = text[op + 1:cl]
        rest = text[cl + 1:]
        m2 = re.match(r'\s*\.take\(', rest)
        if not m2:
            raise WeaveError('R11: repeat(..) not followed by .take(..) at ' + site)
        op2 = cl + 1 + m2.end() - 1
        cl2 = balanced_end(text, op2)
        n = text[op2 + 1:cl2]
        text = text[:m.start()] + 'v_repeat_take(%s, %s)' % (x.strip(), n.strip()) + text[cl2 + 1:]
        cnt += 1
    log.add('R11(iter::repeat(X).take(N) -> v_repeat_take(X,N))', site, cnt)
    return text


def rw_R18(text, site, log):
    """std::cmp::min(A, B) -> v_min_usize(A, B) (the generic std function cannot be given a usize-specific spec)"""
    text, n = re.subn(r'\b(?:std|core)::cmp::min\(', 'v_min_usize(', text)
    log.add('R18(cmp::min -> v_min_usize)', site, n)
    return text


def rw_R22(text, site, log):
    """closure parameter pattern `_` -> a named unused variable (Verus accepts only variable patterns there)"""
    text, n = re.subn(r'\|_\|', '|_vunused|', text)
    log.add('R22(closure parameter `_` -> named unused variable)', site, n)
    return text


def rw_R24(text, site, log):
    """Self::from_inner(E) (unsafe pointer cast, generic over AsRef<[u8]>) -> Self::v_from_slice(E)"""
    text, n = re.subn(r'\b(Self|Event|Tags|Filter)::from_inner\(', r'\1::v_from_slice(', text)
    log.add('R24(from_inner cast -> trusted v_from_slice)', site, n)
    return text


GLOBAL_REWRITES = [rw_R2, rw_R3, rw_R6, rw_R8, rw_R16, rw_R11, rw_R15, rw_R18, rw_R22, rw_R24]


# --------------------------------------------------------------------------- splicing

def split_fn(text):
    """text is a whole fn item `quals fn name<..>(..) -> T where .. { body }`.
    Returns (header, body_with_braces)."""
    toks = tokenize(text)
    i = 0
    while not (toks[i].kind == 'ident' and toks[i].text == 'fn'):
        i += 1
    j = i + 2
    while j < len(toks):
        if toks[j].kind == 'punct' and toks[j].text in ('(', '['):
            j = match_close(toks, j) + 1
            continue
        if toks[j].text == '{':
            break
        j += 1
    return text[:toks[j].start], text[toks[j].start:]


def name_return(header, ret):
    """`-> T` => `-> (ret: T)`; keeps a where clause after it."""
    toks = tokenize(header)
    # find `->` at depth 0 after the param list
    i = 0
    while not (toks[i].kind == 'ident' and toks[i].text == 'fn'):
        i += 1
    j = i + 2
    # generics
    if toks[j].text == '<':
        depth = 0
        while True:
            if toks[j].text == '<':
                depth += 1
            elif toks[j].text == '>' and toks[j - 1].text != '-':
                depth -= 1
                if depth == 0:
                    j += 1
                    break
            j += 1
    assert toks[j].text == '(', header
    j = match_close(toks, j) + 1
    if j + 1 < len(toks) and toks[j].text == '-' and toks[j + 1].text == '>':
        tstart = toks[j + 2].start
        # type ends at `where` (depth 0) or end of header
        k = j + 2
        tend = len(header)
        depth = 0
        while k < len(toks):
            if toks[k].kind == 'punct' and toks[k].text in '([':
                k = match_close(toks, k) + 1
                continue
            if toks[k].kind == 'ident' and toks[k].text == 'where':
                tend = toks[k].start
                break
            k += 1
        ty = header[tstart:tend].rstrip()
        return header[:tstart] + '(%s: %s)' % (ret, ty) + ' ' + header[tend:]
    return header


def splice_fn(text, c: Optional[Contract], site, extra_ensures=None, rename=None):
    header, body = split_fn(text)
    if rename:
        header = re.sub(r'\bfn\s+(\w+)', 'fn ' + rename, header, count=1)
    if c is None:
        return header + body
    if c.ret:
        header = name_return(header, c.ret)
    spec = ''
    if c.requires.strip():
        spec += '    requires\n' + c.requires
    ens = c.ensures
    if extra_ensures:
        ens = (ens.rstrip().rstrip(',') + ',\n' if ens.strip() else '') + '        ' + extra_ensures + ',\n'
    if ens.strip():
        spec += '    ensures\n' + ens
    if c.decreases.strip():
        spec += '    decreases ' + c.decreases
    # loops and anchors inside body
    body = splice_body(body, c, site)
    attrs = ''.join('#[%s]\n' % a for a in c.attrs)
    return attrs + header.rstrip() + '\n' + spec + body


def splice_body(body, c: Contract, site):
    toks, loops = find_loops(body)
    inserts = []  # (offset, text)
    if c.nloops is not None and c.nloops != len(loops):
        raise LostAnchor('%s: expected %d loops, found %d' % (site, c.nloops, len(loops)))
    for n, spec in c.loops.items():
        if n > len(loops):
            raise LostAnchor('%s: loop %d not found (only %d loops)' % (site, n, len(loops)))
        i = loops[n - 1]
        bo = loop_body_open(toks, i)
        s = '\n'
        if c.common_inv:
            spec = dict(spec)
            spec['invariant'] = c.common_inv + spec.get('invariant', '')
        for kw in ('invariant_except_break', 'invariant', 'ensures', 'decreases'):
            if kw in spec and spec[kw].strip():
                s += '            %s\n%s' % (kw, spec[kw] if spec[kw].endswith('\n') else spec[kw] + '\n')
        inserts.append((toks[bo].start, s + '        '))
        if 'iter' in spec:
            if toks[i].text != 'for':
                raise LostAnchor('%s: loop %d is not a for loop (iter)' % (site, n))
            j = i + 1
            while not (toks[j].kind == 'ident' and toks[j].text == 'in'):
                if toks[j].kind == 'punct' and toks[j].text in '([':
                    j = match_close(toks, j)
                j += 1
            inserts.append((toks[j].end, ' %s:' % spec['iter'].strip()))
    for cname, cs in c.closures.items():
        # locate `let NAME = |params| -> T {`
        found = False
        for i, t in enumerate(toks):
            if t.kind == 'ident' and t.text == 'let' and toks[i + 1].text == cname and toks[i + 2].text == '=' and toks[i + 3].text == '|':
                j = i + 4
                while toks[j].text != '|':
                    j += 1
                # j is closing bar; expect -> T {
                if not (toks[j + 1].text == '-' and toks[j + 2].text == '>'):
                    raise LostAnchor('%s: closure %s has no return type' % (site, cname))
                k = j + 3
                while toks[k].text != '{':
                    k += 1
                ty = body[toks[j + 3].start:toks[k].start].strip()
                spec = ''
                if cs.get('requires', '').strip():
                    spec += ' requires ' + cs['requires'].strip()
                if cs.get('ensures', '').strip():
                    spec += ' ensures ' + cs['ensures'].strip()
                ret = cs.get('ret', 'r').strip()
                inserts.append((toks[k].start, spec + ' '))
                # replace the type by (ret: T): implemented as two inserts around the type
                inserts.append((toks[j + 3].start, '(%s: ' % ret))
                inserts.append((toks[k - 1].end, ')'))
                found = True
                break
        if not found:
            raise LostAnchor('%s: closure `%s` not found' % (site, cname))
    lines_cache = None
    for kind, args, text in c.ats:
        if kind == 'fn_start':
            inserts.append((toks[0].end, '\n' + text + '\n'))
        elif kind == 'fn_end':
            inserts.append((toks[-1].start, '\n' + text + '\n'))
        elif kind in ('loop_top', 'loop_end', 'before_loop', 'after_loop'):
            n = args[0]
            if n > len(loops):
                raise LostAnchor('%s: loop %d not found for @at %s' % (site, n, kind))
            i = loops[n - 1]
            bo = loop_body_open(toks, i)
            bc = match_close(toks, bo)
            if kind == 'loop_top':
                inserts.append((toks[bo].end, '\n' + text + '\n'))
            elif kind == 'loop_end':
                inserts.append((toks[bc].start, '\n' + text + '\n'))
            elif kind == 'before_loop':
                st = toks[i].start
                if i >= 2 and toks[i - 1].text == ':' and toks[i - 2].kind == 'lifetime':
                    st = toks[i - 2].start
                inserts.append((st, text + '\n'))
            else:
                inserts.append((toks[bc].end, '\n' + text + '\n'))
        elif kind in ('before', 'after', 'before_stmt'):
            rx, k = args
            # line-based anchor
            offs = []
            pos = 0
            blines = body.split('\n')
            starts = []
            for ln, line in enumerate(blines):
                starts.append(pos)
                if re.search(rx, line):
                    offs.append((pos, pos + len(line), ln))
                pos += len(line) + 1
            if len(offs) < k:
                raise LostAnchor('%s: anchor /%s/ #%d not found' % (site, rx, k))
            a, b, ln = offs[k - 1]
            if kind == 'before_stmt':
                # walk up over continuation lines: the statement starts after a line that ends a statement or
                # opens/closes a block, or after a comment or blank line
                while ln > 0:
                    prev = blines[ln - 1].strip()
                    if prev == '' or prev.startswith('//') or prev[-1] in ';{}':
                        break
                    ln -= 1
                a = starts[ln]
            if kind in ('before', 'before_stmt'):
                inserts.append((a, text + '\n'))
            else:
                inserts.append((b, '\n' + text))
        else:
            raise WeaveError('unknown anchor ' + kind)
    # every loop must have a contract (Verus insists on decreases); report as lost anchor otherwise
    for n in range(1, len(loops) + 1):
        if n not in c.loops:
            raise LostAnchor('%s: loop %d has no loop contract' % (site, n))
    inserts.sort(key=lambda x: x[0], reverse=True)
    for off, t in inserts:
        body = body[:off] + t + body[off:]
    return body


# --------------------------------------------------------------------------- unit assembly

@dataclass
class UnitResult:
    text: str
    linemap: List[Tuple[str, int]]          # per output line: (origin file, origin line) ; origin line 0 = synthetic
    functions: List[dict]                   # functions under proof
    standins: List[dict]
    rewrites: List[dict]
    twins: List[str]
    features: List[str]
    fallbacks: List[dict] = field(default_factory=list)


def strip_attrs_and_docs(text):
    # remove `///` doc comment lines and `#[...]` attribute lines inside copied item text (R1)
    out = []
    for line in text.split('\n'):
        st = line.strip()
        if st.startswith('///') or st.startswith('//!'):
            out.append(re.sub(r'\S.*$', '', line))  # keep line count
            continue
        if re.match(r'#\[(inline|allow|track_caller|must_use|doc|cfg_attr|rustfmt)[^\]]*\]\s*$', st):
            out.append('')
            continue
        out.append(line)
    return '\n'.join(out)


def vis_rewrite(text):
    return re.sub(r'\bpub\s*\(\s*crate\s*\)', 'pub', text)


class Unit:
    def __init__(self, name, repo_root, contracts=None, twins=True):
        self.name = name
        self.repo = Repo(repo_root)
        self.contracts = contracts if contracts is not None else load_contracts()
        self.log = RewriteLog()
        self.want_twins = twins
        self.lines = []      # (text, origin_file, origin_line)
        self.functions = []
        self.standins = []
        self.twins = []
        self.features = []
        self.macros_out = []   # macro text emitted before verus!
        self.expand_macros = {}
        self.fallbacks = []

    def emit(self, text, origin='<weave>', line0=0):
        for k, l in enumerate(text.split('\n')):
            self.lines.append((l, origin, (line0 + k) if line0 else 0))

    def emit_file(self, rel):
        p = os.path.join(VERIF, rel)
        src = open(p).read()
        self.emit(src.rstrip('\n'), rel, 1)

    def apply_rewrites(self, text, site, c: Optional[Contract]):
        text = strip_attrs_and_docs(text)
        text = vis_rewrite(text)
        if self.expand_macros:
            text = expand_macro_calls(text, self.expand_macros, site, self.log)
        if c:
            for r in c.rewrites:
                m32 = re.match(r'R32\(([\w,]+)\)$', r)
                if m32:
                    text = rw_R32_typed_format(text, m32.group(1).split(','), site, self.log)
        for rw in GLOBAL_REWRITES:
            text = rw(text, site, self.log)
        text = rw_R9(text, c, site, self.log)
        if c:
            for r in c.rewrites:
                if r == 'R5':
                    text = rw_R5_any(text, site, self.log)
                    continue
                if r == 'R20':
                    text, n20 = re.subn(r'(\w+)\.to_string\(\)\s*==\s*"Out of space"', r'\1.v_is_out_of_space()', text)
                    text, n20b = re.subn(r'(\w+)\.kind\(\)\s*==\s*std::io::ErrorKind::Other', r'v_kind_is_other(\1.kind())', text)
                    text = text.replace('std::io::Error::other', 'IoError::other')
                    text = re.sub(r'(?<![\w:])Ordering::(Relaxed|SeqCst)', r'atomic_ordering::Ordering::\1', text)
                    self.log.add('R20(io::Error message/kind tests -> stand-in predicates)', site, n20 + n20b)
                    continue
                if r == 'R30':
                    text, n30 = re.subn(r"(\w+)\.splitn\((\w+),\s*\|b\|\s*\*b\s*==\s*(b'.')\)", r'v_splitn(\1, \2, \3)', text)
                    text, n30b = re.subn(r"(\w+)\.split\(\|b\|\s*\*b\s*==\s*(b'.')\)", r'v_split(\1, \2)', text)
                    text, n30c = re.subn(r'std::str::from_utf8\(', 'v_from_utf8(', text)
                    self.log.add('R30(slice split/splitn on a byte, str::from_utf8 -> trusted stand-ins)', site, n30 + n30b + n30c)
                    continue
                if r == 'R28':
                    text, n28 = re.subn(r'unsafe\s*\{\s*String::from_utf8_unchecked\((\w+)\)\s*\}', r'v_string_from_utf8_unchecked(\1)', text)
                    text, n28b = re.subn(r'unsafe\s*\{\s*std::str::from_utf8_unchecked\(([^{}]*?)\)\s*\}', r'v_str_from_utf8_unchecked(\1)', text)
                    n28 += n28b
                    self.log.add('R28(String::from_utf8_unchecked -> trusted stand-in)', site, n28)
                    continue
                if r == 'R23':
                    text, n23 = re.subn(r'mem::size_of::<usize>\(\)', 'mem::size_of_usize()', text)
                    text, n23b = re.subn(r'<P: AsRef<Path>>', '<P>', text)
                    self.log.add('R23(mem::size_of::<usize>() -> stand-in; AsRef<Path> bound dropped)', site, n23 + n23b)
                    continue
                if r == 'R21':
                    text, n21 = re.subn(r'&self\.event_map\[([^\]]*?)\.\.\]', r'self.event_map.v_slice_from(\1, Tracked(w))', text)
                    self.log.add('R21(&MMAP[a..] (Deref<[u8]>) -> MMAP.v_slice_from(a, ghost world))', site, n21)
                    continue
                m29 = re.match(r'R29\((\w+)\)$', r)
                if m29:
                    v = m29.group(1)
                    text, n29 = re.subn(r'&mut\s+%s\[' % v, '&mut %s.as_mut_slice()[' % v, text)
                    # the same auto-referenced: `VEC[a..b].copy_from_slice(..)` is `(&mut VEC[a..b]).copy_from_slice(..)`
                    text, n29b = re.subn(r'(?<![\w.])%s\[([^\]\[]*\.\.[^\]\[]*)\]\.copy_from_slice\(' % v,
                                         r'%s.as_mut_slice()[\1].copy_from_slice(' % v, text)
                    n29 += n29b
                    self.log.add('R29(&mut VEC[range] -> &mut VEC.as_mut_slice()[range])', site, n29)
                    continue
                if r.startswith('R32('):
                    continue
                if r == 'R35':
                    # `VEC.drain(..)` (the whole vector, by value, in order) -> `v_drain_all(&mut VEC)`: a stand-in iterator
                    # that yields exactly the elements the vector held, in order (prelude/drain.rs)
                    text, n35 = re.subn(r'(\w+)\.drain\(\.\.\)', r'v_drain_all(&mut \1)', text)
                    self.log.add('R35(VEC.drain(..) -> v_drain_all(&mut VEC))', site, n35)
                    continue
                m33 = re.match(r'R33\((\w+)\)$', r)
                if m33:
                    # `fn f(.., mut x: T, ..) { B }` -> `fn f(.., x_entry: T, ..) { let mut x = x_entry; B }`: the same function;
                    # the contract can then name the argument's value at entry (Verus has no old() for by-value parameters)
                    v = m33.group(1)
                    mm = re.search(r'\bmut\s+%s\s*:' % v, text)
                    if not mm:
                        raise LostAnchor('%s: no `mut %s:` parameter (R33)' % (site, v))
                    text = text[:mm.start()] + '%s_entry:' % v + text[mm.end():]
                    ob = text.index('{', mm.start())
                    text = text[:ob + 1] + ' let mut %s = %s_entry; ' % (v, v) + text[ob + 1:]
                    self.log.add('R33(mut by-value parameter -> immutable parameter + let mut rebinding)', site, 1)
                    continue
                m17 = re.match(r'R17\((\w+)\)$', r)
                if m17:
                    text = rw_R17(text, m17.group(1), site, self.log)
                    continue
                m = re.match(r'(R4|R12|R27|R31)\(([\d,]+)\)$', r)
                if not m:
                    raise WeaveError('unknown rewrite ' + r)
                which = [int(x) for x in m.group(2).split(',')]
                if m.group(1) == 'R4':
                    text = rw_R4_for_desugar(text, which, site, self.log)
                elif m.group(1) == 'R27':
                    text = rw_R27_slice_enumerate(text, which, site, self.log)
                elif m.group(1) == 'R31':
                    text = rw_R27_slice_enumerate(text, which, site, self.log, byref=True)
                else:
                    text = rw_R12_break_value(text, which, site, self.log)
        return text

    def fn_text(self, rel, path, mode, extra_ensures=None, rename=None):
        """mode: body | standin"""
        base = path.split('#', 1)[0]
        src, it = self.repo.item(rel, base)
        if it.kind != 'fn':
            raise LostAnchor('%s::%s is not a fn' % (rel, path))
        c = self.contracts.get((rel, path))
        site = '%s::%s' % (rel, path)
        raw = src[it.start:it.end]
        line0 = rustlex.line_of(src, it.start)
        if '#' in path:
            # R34: a contiguous statement range of a function too large / too far outside the verifier's reach, verified
            # as a function of its own.  The lines from the first line matching `slice_from` through the first later line
            # matching `slice_to` are copied verbatim; the signature (the range's free variables) and the tail expression
            # come from the contract.  Everything of the enclosing function outside the range is dropped.
            if c is None or not all(k in c.slice for k in ('from', 'to', 'sig', 'tail')):
                raise WeaveError('slice without @slice_from/@slice_to/@slice_sig/@slice_tail: ' + site)
            lines = raw.split('\n')
            a = next((i for i, l in enumerate(lines) if re.search(c.slice['from'], l)), None)
            if a is None:
                raise LostAnchor('%s: slice start /%s/ not found' % (site, c.slice['from']))
            b = next((i for i in range(a, len(lines)) if re.search(c.slice['to'], lines[i])), None)
            if b is None:
                raise LostAnchor('%s: slice end /%s/ not found' % (site, c.slice['to']))
            line0 = line0 + a
            raw = c.slice['sig'] + ' {\n' + '\n'.join(lines[a:b + 1]) + '\n        ' + c.slice['tail'] + '\n}'
            self.log.add('R34(statement range of %s verified as a function of its own)' % base, site, 1)
        if mode == 'standin':
            header, _ = split_fn(rw_R9(strip_attrs_and_docs(vis_rewrite(raw)), c, site, RewriteLog(), header_only=True))
            if c is None:
                raise WeaveError('standin without contract: ' + site)
            sc = Contract(c.file, c.path, ret=c.ret, requires=c.requires, ensures=c.ensures)
            t = splice_fn(header + '{ unimplemented!() }', sc, site)
            return '#[verifier::external_body]\n' + t, line0
        if c is None:
            raise WeaveError('body without contract: %s (add an empty @fn entry)' % site)
        try:
            text = self.apply_rewrites(raw, site, c)
            return splice_fn(text, c, site, extra_ensures=extra_ensures, rename=rename), line0
        except LostAnchor as e:
            # Fallback: the function's internal structure no longer matches the loop/hint anchors.  If the function is
            # now loop-free, all of its obligations are first-order path conditions, so it is re-verified against its
            # pre/postcondition alone (no loop contracts, no hints).  Otherwise the loss is reported (undecided).
            c2 = Contract(c.file, c.path, ret=c.ret, requires=c.requires, ensures=c.ensures, decreases=c.decreases,
                          ghostparams=c.ghostparams, ghostargs=c.ghostargs, attrs=c.attrs,
                          rewrites=[r for r in c.rewrites if r in ('R5', 'R20', 'R21', 'R23', 'R28', 'R30') or r.startswith('R17') or r.startswith('R29') or r.startswith('R32(')])
            c2.ats = [a for a in c.ats if a[0] == 'fn_start' and 'let ghost' not in a[2]]
            text = self.apply_rewrites(raw, site, c2)
            _, loops = find_loops(split_fn(text)[1])
            if loops:
                raise
            # `hinted`: the contract carried proof hints that could not be placed; a failure of the bare attempt may then
            # only mean that the solver lacks those hints, so it is reported as undecided, never as a violation
            hinted = any(not (a[0] == 'fn_start' and 'let ghost' not in a[2]) for a in c.ats)
            if not any(f.get('fallback') == site for f in self.fallbacks):
                self.fallbacks.append({'fallback': site, 'reason': str(e), 'hinted': hinted})
            return splice_fn(text, c2, site, extra_ensures=extra_ensures, rename=rename), line0

    def build(self):
        upath = os.path.join(VERIF, 'units', self.name + '.unit')
        entries = []
        raw_mode = False
        raw_buf = []
        for line in open(upath):
            s = line.rstrip('\n')
            if raw_mode:
                if s.strip() == 'endraw':
                    entries.append(('raw', '\n'.join(raw_buf)))
                    raw_mode = False
                    raw_buf = []
                else:
                    raw_buf.append(s)
                continue
            st = s.strip()
            if not st or st.startswith('#'):
                continue
            parts = st.split(None, 2)
            if parts[0] == 'raw':
                raw_mode = True
                continue
            entries.append(tuple(parts))

        self.emit('// GENERATED by tools/weave.py for unit %s -- do not edit' % self.name)
        pre_feature_idx = len(self.lines)
        self.emit('#![allow(unused_imports, dead_code, unused_variables, unused_mut, unused_assignments, unused_parens, unreachable_code, unused_braces, non_snake_case, unused_unsafe)]')
        # macros first (outside verus!)
        body_entries = []
        for e in entries:
            if e[0] == 'feature':
                self.features.append(e[1])
            elif e[0] == 'macro':
                src, it = self.repo.item(e[1], 'macro ' + e[2])
                text = src[it.start:it.end]
                text = self.apply_rewrites(text, '%s::macro %s' % (e[1], e[2]), None)
                text = text.replace('$crate::', 'crate::')
                self.emit(text, e[1], rustlex.line_of(src, it.start))
            elif e[0] == 'expand':
                src, it = self.repo.item(e[1], 'macro ' + e[2])
                params, body = macro_def(src, it)
                self.expand_macros[e[2]] = (params, body)
            elif e[0] == 'premacro':
                self.emit_file(e[1])
            else:
                body_entries.append(e)
        # `env FILE`: stand-ins for every contracted fn of FILE not otherwise listed (so that code which starts
        # calling another existing API function still finds it in the unit)
        listed = set((e[1], e[2]) for e in body_entries if e[0] in ('body', 'standin'))
        expanded = []
        for e in body_entries:
            if e[0] == 'env':
                for (f, pth), c in self.contracts.items():
                    if f == e[1] and (f, pth) not in listed:
                        try:
                            self.repo.item(f, pth)
                        except LostAnchor:
                            continue
                        expanded.append(('standin', f, pth))
                        listed.add((f, pth))
            else:
                expanded.append(e)
        body_entries = expanded
        self.emit('use vstd::prelude::*;')
        self.emit('verus! {')
        open_impl = None

        def close_impl():
            nonlocal open_impl
            if open_impl is not None:
                self.emit('}')
                open_impl = None

        for e in body_entries:
            kind = e[0]
            if kind in ('prelude', 'spec'):
                close_impl()
                for f in e[1:]:
                    for ff in ' '.join(e[1:]).split():
                        pass
                for ff in ' '.join(e[1:]).split():
                    self.emit_file(os.path.join(kind, ff))
            elif kind == 'raw':
                close_impl()
                self.emit(e[1], 'units/%s.unit' % self.name)
            elif kind == 'item':
                close_impl()
                src, it = self.repo.item(e[1], e[2])
                text = self.apply_rewrites(src[it.start:it.end], '%s::%s' % (e[1], e[2]), None)
                if it.kind == 'static':
                    # R13: immutable table `pub static X: T = INIT;` -> `const X: T = INIT;` (contents visible to specs)
                    text = re.sub(r'^(pub(\s*\([^)]*\))?\s+)?static\s+', 'const ', text, count=1)
                    text = re.sub(r':\s*&\s*\[', ": &'static [", text, count=1)
                    self.log.add('R13(static table -> const)', '%s::%s' % (e[1], e[2]))
                if it.kind == 'struct':
                    # R1: tuple-struct fields pub so specs may mention self.0
                    if re.match(r'(pub\s+)?struct\s+\w+(<[^>]*>)?\s*\(', text):
                        text = re.sub(r'\((\s*)(?!pub)', r'(\1pub ', text, count=1)
                    else:
                        # named fields: make every field pub so that specs may mention it
                        text = re.sub(r'(?m)^(\s+)(?!pub\b)(\w+\s*:)', r'\1pub \2', text)
                    # R1: derive lists are reduced to what Verus accepts (sized newtypes keep Clone/Copy/PartialEq/Eq/
                    # PartialOrd/Ord and gain Structural; unsized byte newtypes keep none)
                    text = re.sub(r'#\[derive\([^)]*\)\]\s*', '', text)
                    md = re.search(r'#\[derive\(([^)]*)\)\]', it.attrs)
                    unsized = re.search(r'\(\s*(pub\s+)?\[u8\]\s*\)', text) is not None
                    if md and not unsized:
                        ds = [d.strip() for d in md.group(1).split(',')]
                        keep = [d for d in ds if d in ('Clone', 'Copy', 'PartialEq', 'Eq', 'PartialOrd', 'Ord')]
                        owns_vec = re.search(r'\bVec\s*<', text) is not None
                        if owns_vec:
                            # owned buffers: `Structural` does not apply to Vec; keep only Clone
                            keep = [d for d in keep if d == 'Clone']
                        if 'PartialEq' in keep and 'Eq' in keep:
                            keep.append('Structural')
                        if keep:
                            text = '#[derive(%s)]\n' % ', '.join(keep) + text
                self.emit(text, e[1], rustlex.line_of(src, it.start))
            elif kind in ('body', 'standin'):
                rel, path = e[1], e[2]
                src, it = self.repo.item(rel, path.split('#', 1)[0])
                # impl grouping (a slice, R34, is emitted as a free function unless its signature takes `self`)
                sc_ = self.contracts.get((rel, path))
                slice_self = '#' in path and sc_ is not None and re.search(r'\(\s*&?\s*(mut\s+)?self\b', sc_.slice.get('sig', ''))
                if '::' in path and ('#' not in path or slice_self):
                    hdr_path = path.split('#', 1)[0].rsplit('::', 1)[0]
                    _, impl_it = self.repo.item(rel, hdr_path)
                    hdr = impl_it.impl_header.strip()
                    item_ty = None
                    # R14: trait impls of std traits become inherent impls
                    m = re.match(r'impl(\s*<[^>]*>)?\s+([\w:]+(?:<[^>]*>)?)\s+for\s+(.+)$', hdr, re.S)
                    if m:
                        trait = m.group(2)
                        hdr2 = 'impl%s %s' % (m.group(1) or '', m.group(3))
                        # find associated type
                        assoc = {}
                        for ch in impl_it.children:
                            if ch.kind == 'type':
                                mm = re.match(r'type\s+(\w+)\s*=\s*(.*);', src[ch.start:ch.end], re.S)
                                assoc[mm.group(1)] = mm.group(2).strip()
                        key = hdr2
                        self.log.add('R14(trait impl `%s` -> inherent impl)' % ' '.join(hdr.split()), '%s::%s' % (rel, path)) if open_impl != (rel, key) else None
                        hdr = hdr2
                    else:
                        assoc = {}
                        key = hdr
                    if open_impl != (rel, key):
                        close_impl()
                        self.emit(hdr + ' {', rel, rustlex.line_of(src, impl_it.start))
                        open_impl = (rel, key)
                else:
                    close_impl()
                    assoc = {}
                text, line0 = self.fn_text(rel, path, kind)
                for an, ty in assoc.items():
                    text = re.sub(r'\bSelf::%s\b' % an, ty, text)
                self.emit(text, rel, line0)
                rec = {'file': rel, 'path': path, 'line': line0}
                if kind == 'body':
                    self.functions.append(rec)
                    if self.want_twins:
                        tname = (it.name if '#' not in path else path.split('#', 1)[1]) + '__twin'
                        ttext, _ = self.fn_text(rel, path, 'body', extra_ensures='false', rename=tname)
                        for an, ty in assoc.items():
                            ttext = re.sub(r'\bSelf::%s\b' % an, ty, ttext)
                        # a must-fail twin only has to be *unprovable*: a contradictory context proves `false` at once, so a
                        # small resource limit is enough and keeps the guard cheap on the heavy functions
                        ttext = re.sub(r'#\[verifier::rlimit\(\d+\)\]', '#[verifier::rlimit(40)]', ttext)
                        self.emit(ttext, '<twin:%s::%s>' % (rel, path), line0)
                        self.twins.append('%s::%s' % (rel, path))
                        # reachability twins: the hypothesis of a conditional clause must not be refutable inside the proof
                        cc = self.contracts.get((rel, path))
                        for mi, mf in enumerate(cc.mustfail if cc else []):
                            tname2 = (it.name if '#' not in path else path.split('#', 1)[1]) + '__twin_reach%d' % (mi + 1)
                            ttext, _ = self.fn_text(rel, path, 'body', extra_ensures=mf, rename=tname2)
                            for an, ty in assoc.items():
                                ttext = re.sub(r'\bSelf::%s\b' % an, ty, ttext)
                            ttext = re.sub(r'#\[verifier::rlimit\(\d+\)\]', '#[verifier::rlimit(40)]', ttext)
                            self.emit(ttext, '<twin:%s::%s#reach%d>' % (rel, path, mi + 1), line0)
                            self.twins.append('%s::%s#reach%d' % (rel, path, mi + 1))
                else:
                    self.standins.append(rec)
            else:
                raise WeaveError('unknown unit entry: %r' % (e,))
        close_impl()
        self.emit('} // verus!')
        self.emit('fn main() {}')
        if self.features:
            self.lines.insert(pre_feature_idx, ('#![feature(%s)]' % ', '.join(self.features), '<weave>', 0))
        text = '\n'.join(l for l, _, _ in self.lines) + '\n'
        linemap = [(o, ln) for _, o, ln in self.lines]
        return UnitResult(text, linemap, self.functions, self.standins, self.log.entries, self.twins, self.features, self.fallbacks)


if __name__ == '__main__':
    import argparse
    ap = argparse.ArgumentParser()
    ap.add_argument('unit')
    ap.add_argument('--repo', default='/repo')
    ap.add_argument('-o', default=None)
    ap.add_argument('--no-twins', action='store_true')
    a = ap.parse_args()
    u = Unit(a.unit, a.repo, twins=not a.no_twins)
    r = u.build()
    if a.o:
        open(a.o, 'w').write(r.text)
    else:
        sys.stdout.write(r.text)
