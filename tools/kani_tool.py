#!/usr/bin/env python3
"""Kani side of the machinery: weave a scratch copy of the workspace (K1 + per-file cfg(kani) harness modules),
run harness groups, parse results, extract concrete counterexamples."""
import json
import os
import re
import shutil
import subprocess
import sys
import tempfile
import time

VERIF = os.path.dirname(os.path.dirname(os.path.abspath(__file__)))

# group -> (package, [(harness source under /verif/kani, repo file it is appended to)], [harness names], extra cargo-kani args)
GROUPS = {
    'hll': ('pocket-types', [('hll8.rs', 'pocket-types/src/hll8.rs')],
            ['merge_is_registerwise_max', 'merge_commutative', 'merge_associative', 'merge_idempotent',
             'new_and_clear_are_empty', 'add_element_rho_semantics', 'add_element_is_max_with_singleton',
             'add_element_err_iff_offset_out_of_range', 'estimate_count_any_last_register_does_not_panic'], []),
    # leaf contracts that stand for repo code Verus cannot read (used as assumptions by the Verus units)
    'leaf': ('pocket-types', [('leaf_json_escape.rs', 'pocket-types/src/json/json_escape.rs'), ('leaf_kind.rs', 'pocket-types/src/kind.rs'),
                              ('leaf_event.rs', 'pocket-types/src/event.rs')],
             ['is_safe_char_contract', 'kind_classification_contract', 'event_id_pubkey_sig_contract'], []),
    'addr': ('pocket-types', [('addr.rs', 'pocket-types/src/addr.rs')], ['addr_d_is_everything_after_second_colon'], []),
    # slow direct checks (minutes): thorough tier only
    'hll_slow': ('pocket-types', [('hll8.rs', 'pocket-types/src/hll8.rs')],
            ['add_distributes_over_merge', 'add_element_idempotent_and_order_independent'], []),
}
# harnesses whose loops depend on input length: reported as bounded(n), never counted as proved
BOUNDED = {'addr_d_is_everything_after_second_colon': 'd <= 6 bytes, fixed kind digits and author'}


def weave_copy(repo, group):
    d = tempfile.mkdtemp(prefix='pocket-kani-', dir=os.environ.get('VERIF_SCRATCH') or tempfile.gettempdir())
    dst = os.path.join(d, 'ws')
    shutil.copytree(repo, dst, ignore=shutil.ignore_patterns('target', '.git'))
    # K1: caller_location is unsupported by Kani -> drop the diagnostic location from both error types
    for crate in ('pocket-types', 'pocket-db'):
        p = os.path.join(dst, crate, 'src', 'error.rs')
        s = open(p).read()
        n0 = s.count('Location')
        s = s.replace("location: &'static Location<'static>,", 'location: KLoc,')
        s = s.replace('location: Location::caller(),', 'location: KLoc,')
        s = s.replace('use std::panic::Location;', '#[derive(Debug, Clone, Copy)]\npub(crate) struct KLoc;\nimpl std::fmt::Display for KLoc { fn fmt(&self, f: &mut std::fmt::Formatter<\'_>) -> std::fmt::Result { write!(f, "-") } }')
        open(p, 'w').write(s)
    pkg, files, harnesses, extra = GROUPS[group]
    for src, target in files:
        code = open(os.path.join(VERIF, 'kani', src)).read()
        p = os.path.join(dst, target)
        s = open(p).read()
        s += '\n#[cfg(kani)]\nmod verif_kani {\n    use super::*;\n' + code + '\n}\n'
        open(p, 'w').write(s)
    return d, dst


def run_group(group, repo, tier='quick', harness_filter=None):
    t0 = time.time()
    res = {'group': group, 'status': 'ok', 'reason': '', 'harnesses': [], 'failed': [], 'trusted': [
        'K1: the diagnostic `location` field of the error types is replaced by a zero-sized marker in the Kani scratch copy (caller_location is unsupported by Kani 0.68)',
        'Kani 0.68 / CBMC 6.11 are sound']}
    try:
        d, ws = weave_copy(repo, group)
    except Exception as e:   # noqa
        res['status'] = 'undecided'
        res['reason'] = 'weave failed: %s' % e
        return res
    pkg, files, harnesses, extra = GROUPS[group]
    if harness_filter:
        harnesses = [h for h in harnesses if h in harness_filter]
    try:
        env = dict(os.environ, CARGO_NET_OFFLINE='true')
        base = ['cargo', 'kani', '-p', pkg, '-Z', 'function-contracts', '-Z', 'stubbing', '--output-format', 'terse'] + extra
        cmd = base + ['-j', str(min(8, max(1, len(harnesses))))]
        for h in harnesses:
            cmd += ['--harness', h]
        res['cmd'] = ' '.join(cmd)
        p = subprocess.run(cmd, cwd=ws, capture_output=True, text=True, env=env, timeout=int(os.environ.get('VERIF_KANI_TIMEOUT', '3000')))
        out = p.stdout + '\n' + p.stderr
        res['raw_tail'] = out[-3000:]
        parse(out, harnesses, res)
        # counterexamples: re-run each failed harness alone with concrete playback (incompatible with -j > 1)
        for h in res['failed']:
            cmd2 = base + ['-Z', 'concrete-playback', '--concrete-playback=print', '--harness', h['harness']]
            p2 = subprocess.run(cmd2, cwd=ws, capture_output=True, text=True, env=env, timeout=1800)
            o2 = p2.stdout + '\n' + p2.stderr
            mpb = re.search(r'Concrete playback unit test for[^\n]*\n```\n(.*?)```', o2, re.S)
            if mpb:
                h['replay'] = {'group': group, 'harness': h['harness'], 'kani_concrete_playback_test': mpb.group(1).strip(),
                               'how_to_replay': 'append the test to the harness module of the woven copy and run `cargo kani playback -Z concrete-playback -- <test name>` (./check replay does this)'}
    except subprocess.TimeoutExpired:
        res['status'] = 'undecided'
        res['reason'] = 'kani timeout'
    finally:
        shutil.rmtree(d, ignore_errors=True)
    res['seconds'] = round(time.time() - t0, 1)
    return res


def parse(out, harnesses, res):
    # split per harness
    # -j mode: "Thread N: Checking harness X..." then result blocks headed "Thread N:"
    blocks = []
    if re.search(r'(?m)^Thread (\d+): Checking harness ', out):
        # a thread may check several harnesses one after the other: a result block headed "Thread N:" belongs to the
        # harness that thread announced last
        cur = {}
        marks = list(re.finditer(r'(?m)^Thread (\d+): (?:Checking harness ([\w:]+)\.\.\.)? *$', out))
        for k, m in enumerate(marks):
            if m.group(2):
                cur[m.group(1)] = m.group(2).split('::')[-1]
            elif m.group(1) in cur:
                end = marks[k + 1].start() if k + 1 < len(marks) else len(out)
                blocks.append(cur[m.group(1)] + '...' + out[m.end():end])
    else:
        blocks = re.split(r'(?m)^Checking harness ', out)[1:]
    seen = {}
    for b in blocks:
        name = b.split('...')[0].strip().split('::')[-1]
        status = None
        m = re.search(r'VERIFICATION:- (SUCCESSFUL|FAILED)', b)
        if m:
            status = m.group(1)
        mchk = re.search(r'\*\* (\d+) of (\d+) failed', b)
        checks = int(mchk.group(2)) if mchk else 0
        failed_checks = int(mchk.group(1)) if mchk else 0
        mcov = re.search(r'\*\* (\d+) of (\d+) cover properties satisfied', b)
        unsat_cover = (int(mcov.group(2)) - int(mcov.group(1))) if mcov else 0
        undet = 'UNDETERMINED' in b
        h = {'harness': name, 'status': status, 'checks': checks, 'failed_checks': failed_checks,
             'complete': name not in BOUNDED, 'bound': BOUNDED.get(name), 'unsatisfied_covers': unsat_cover}
        mt = re.search(r'Verification Time: ([\d.]+)s', b)
        if mt:
            h['seconds'] = float(mt.group(1))
        seen[name] = h
        res['harnesses'].append(h)
        if status == 'FAILED' and ('CBMC failed' in b or 'out of memory' in b or 'timed out' in b.lower()):
            res['status'] = 'undecided'
            res['reason'] += ' %s: CBMC resource limit (out of memory / killed);' % name
            continue
        if status == 'FAILED':
            if undet and failed_checks == 0:
                res['status'] = 'undecided'
                res['reason'] += ' %s: UNDETERMINED (unsupported construct reached)' % name
                continue
            fails = re.findall(r'Failed Checks: (.*)', b)
            h['summary'] = '; '.join(fails[:4])
            mpb = re.search(r'Concrete playback unit test for `[^`]*`:\s*```(.*?)```', b, re.S)
            if mpb:
                h['replay'] = {'kani_concrete_playback_test': mpb.group(1).strip()}
            res['failed'].append(h)
        elif status is None:
            res['status'] = 'undecided'
            res['reason'] += ' %s: no verdict' % name
        elif unsat_cover:
            res['status'] = 'undecided'
            res['reason'] += ' %s: %d cover properties unsatisfied (vacuity guard)' % (name, unsat_cover)
    for hname in harnesses:
        if hname not in seen:
            res['status'] = 'undecided'
            res['reason'] += ' %s: harness did not run;' % hname
    if res['status'] == 'undecided' and not res['reason']:
        res['reason'] = 'see raw output'
    if 'error: could not compile' in out or 'error[E' in out:
        res['status'] = 'undecided'
        res['reason'] = 'kani compile error: ' + '; '.join(re.findall(r'(?m)^error.*$', out)[:3])


def ce_search(fn, repo):
    return None


def playback(group, test_src, repo):
    """Replays a Kani counterexample on the real code: the generated unit test (concrete byte values for every kani::any)
    is appended to the harness module of a freshly woven copy of `repo` and executed with `cargo kani playback`."""
    d, ws = weave_copy(repo, group)
    try:
        pkg, files, harnesses, extra = GROUPS[group]
        target = os.path.join(ws, files[0][1])
        s = open(target).read()
        k = s.rindex('}')
        s = s[:k] + '\n' + test_src + '\n}\n'
        open(target, 'w').write(s)
        name = re.search(r'fn (kani_concrete_playback_\w+)', test_src).group(1)
        env = dict(os.environ, CARGO_NET_OFFLINE='true')
        p = subprocess.run(['cargo', 'kani', 'playback', '-Z', 'concrete-playback', '-p', pkg, '--', name],
                           cwd=ws, capture_output=True, text=True, env=env, timeout=1800)
        out = p.stdout + '\n' + p.stderr
        failed = ('test result: FAILED' in out) or ('panicked at' in out)
        passed = 'test result: ok. 1 passed' in out
        return {'test': name, 'reproduced': failed and not passed, 'output_tail': out[-1500:]}
    finally:
        shutil.rmtree(d, ignore_errors=True)


if __name__ == '__main__':
    g = sys.argv[1]
    hf = sys.argv[2:] or None
    r = run_group(g, '/repo', harness_filter=hf)
    raw = r.pop('raw_tail', '')
    print(json.dumps(r, indent=1))
    if r['status'] != 'ok' or r['failed']:
        print(raw)
