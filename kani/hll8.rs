// Kani harnesses appended (inside `#[cfg(kani)] mod verif_kani { use super::*; ... }`) to pocket-types/src/hll8.rs.
// All loops have constant bounds (256 registers, at most 31 input bytes): with unwinding assertions on, these are
// complete proofs over the full domain, not bounded ones.

fn any_hll() -> Hll8 {
    let regs: [u8; 256] = kani::any();
    Hll8(regs)
}
// equality of two sketches, checked at a symbolic (hence universally quantified) register index
fn eq(a: &Hll8, b: &Hll8) -> bool {
    let i: usize = kani::any();
    kani::assume(i < 256);
    a.0[i] == b.0[i]
}

#[kani::proof]
#[kani::unwind(258)]
fn merge_is_registerwise_max() {
    let a = any_hll();
    let b = any_hll();
    let mut m = a;
    m += b;
    let i: usize = kani::any();
    kani::assume(i < 256);
    let expect = if a.0[i] > b.0[i] { a.0[i] } else { b.0[i] };
    assert!(m.0[i] == expect);
    kani::cover!(a.0[i] < b.0[i]);
}

#[kani::proof]
#[kani::unwind(258)]
fn merge_commutative() {
    let a = any_hll();
    let b = any_hll();
    let mut ab = a;
    ab += b;
    let mut ba = b;
    ba += a;
    assert!(eq(&ab, &ba));
}

#[kani::proof]
#[kani::unwind(258)]
fn merge_associative() {
    let a = any_hll();
    let b = any_hll();
    let c = any_hll();
    let mut l = a;
    l += b;
    l += c;
    let mut bc = b;
    bc += c;
    let mut r = a;
    r += bc;
    assert!(eq(&l, &r));
}

#[kani::proof]
#[kani::unwind(258)]
fn merge_idempotent() {
    let a = any_hll();
    let mut aa = a;
    aa += a;
    assert!(eq(&aa, &a));
}

// bit j (0 = most significant bit of input[offset+1]) of the bit string that follows the bucket byte
fn bit_after(input: &[u8; 32], offset: usize, j: usize) -> bool {
    let byte = input[offset + 1 + j / 8];
    (byte >> (7 - (j % 8))) & 1 == 1
}

// rho = 1 + number of leading zero bits of input[offset+1..32], stated without a loop: with z = rho - 1,
// every bit before position z is 0 and, unless the string is exhausted, bit z is 1.  The bit position checked is
// symbolic, i.e. universally quantified.
#[kani::proof]
#[kani::unwind(34)]
fn add_element_rho_semantics() {
    let input: [u8; 32] = kani::any();
    let offset: usize = kani::any();
    kani::assume(offset < 24);
    let mut s = Hll8::new();
    s.add_element(&input, offset).unwrap();
    let idx = input[offset] as usize;
    let rho = s.0[idx] as usize;
    let nbits = (31 - offset) * 8;
    assert!(rho >= 1 && rho <= nbits + 1);
    let z = rho - 1;
    let j: usize = kani::any();
    kani::assume(j < nbits);
    if j < z { assert!(!bit_after(&input, offset, j)); }
    if j == z { assert!(bit_after(&input, offset, j)); }
    // every other register of the empty sketch stays empty
    let i: usize = kani::any();
    kani::assume(i < 256 && i != idx);
    assert!(s.0[i] == 0);
    kani::cover!(z > 8);
}

// adding x to any sketch a = register-wise max of a and the sketch of {x} alone
#[kani::proof]
#[kani::unwind(34)]
fn add_element_is_max_with_singleton() {
    let a = any_hll();
    let input: [u8; 32] = kani::any();
    let offset: usize = kani::any();
    kani::assume(offset < 24);
    let mut s = a;
    s.add_element(&input, offset).unwrap();
    let mut z = Hll8::new();
    z.add_element(&input, offset).unwrap();
    let i: usize = kani::any();
    kani::assume(i < 256);
    let expect = if a.0[i] > z.0[i] { a.0[i] } else { z.0[i] };
    assert!(s.0[i] == expect);
}

#[kani::proof]
#[kani::unwind(34)]
fn add_element_err_iff_offset_out_of_range() {
    let a = any_hll();
    let input: [u8; 32] = kani::any();
    let offset: usize = kani::any();
    let mut s = a;
    let r = s.add_element(&input, offset);
    assert!(r.is_err() == (offset >= 24));
    if r.is_err() { assert!(eq(&s, &a)); }
    kani::cover!(offset < 24);
    kani::cover!(offset >= 24);
}

#[kani::proof]
#[kani::unwind(34)]
fn add_element_idempotent_and_order_independent() {
    let a = any_hll();
    let x: [u8; 32] = kani::any();
    let y: [u8; 32] = kani::any();
    let offset: usize = kani::any();
    kani::assume(offset < 24);
    let mut s1 = a;
    s1.add_element(&x, offset).unwrap();
    let once = s1;
    s1.add_element(&x, offset).unwrap();
    assert!(eq(&s1, &once));
    let mut xy = a;
    xy.add_element(&x, offset).unwrap();
    xy.add_element(&y, offset).unwrap();
    let mut yx = a;
    yx.add_element(&y, offset).unwrap();
    yx.add_element(&x, offset).unwrap();
    assert!(eq(&xy, &yx));
}

// sketch(A u {x}) merged with sketch(B) == sketch(A) merged with sketch(B), then x added:
// the one-step law from which "sketch of a union = merge of the sketches" follows by induction on insertions
#[kani::proof]
#[kani::unwind(258)]
fn add_distributes_over_merge() {
    let a = any_hll();
    let b = any_hll();
    let x: [u8; 32] = kani::any();
    let offset: usize = kani::any();
    kani::assume(offset < 24);
    let mut l = a;
    l.add_element(&x, offset).unwrap();
    l += b;
    let mut r = a;
    r += b;
    r.add_element(&x, offset).unwrap();
    assert!(eq(&l, &r));
}

#[kani::proof]
#[kani::unwind(258)]
fn new_and_clear_are_empty() {
    let mut a = any_hll();
    a.clear();
    let n = Hll8::new();
    assert!(eq(&a, &n));
    let i: usize = kani::any();
    kani::assume(i < 256);
    assert!(n.0[i] == 0);
}

// estimate_count never panics, whatever value (0..=255, all reachable through from_hex_string) a register holds: the
// last register holds a symbolic value, the others are empty (so the running sum is concrete until the last iteration;
// with the register at a symbolic index, or with 256 symbolic registers, CBMC did not finish in 20 minutes).  Complete
// for these 256 states only.  What this guards: integer arithmetic on a register value inside the estimator (a shift by
// the register, fixed in 17a5c7f) -- floating-point operations cannot panic.
#[kani::proof]
#[kani::unwind(258)]
fn estimate_count_any_last_register_does_not_panic() {
    let mut h = Hll8::new();
    let r: u8 = kani::any();
    h.0[255] = r;
    let _ = h.estimate_count();
    kani::cover!(r >= 64);
}
