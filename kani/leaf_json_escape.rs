// is_safe_char over all 2^32 code points (three-iteration loop over a constant array): complete
#[kani::proof]
#[kani::unwind(5)]
fn is_safe_char_contract() {
    let c: u32 = kani::any();
    let expect = (0x20 <= c && c <= 0x21) || (0x23 <= c && c <= 0x5B) || (0x5D <= c && c <= 0x10FFFF);
    assert!(is_safe_char(c) == expect);
    kani::cover!(c == 0x1F);
    kani::cover!(c == 0x22);
}
