// by-value accessors of Event (slice -> array conversions Verus cannot read): loop-free over a symbolic 152-byte header
fn sym_event_bytes() -> [u8; 160] {
    let b: [u8; 160] = kani::any();
    b
}
#[kani::proof]
#[kani::unwind(70)]
fn event_id_pubkey_sig_contract() {
    let b = sym_event_bytes();
    let e = Event::from_inner(&b[..]);
    let id = e.id();
    let pk = e.pubkey();
    let sig = e.sig();
    let i: usize = kani::any();
    kani::assume(i < 32);
    assert!(id.as_slice()[i] == b[16 + i]);
    assert!(pk.as_slice()[i] == b[48 + i]);
    let j: usize = kani::any();
    kani::assume(j < 64);
    assert!(sig.as_slice()[j] == b[80 + j]);
    // parse_uN! macros are little-endian reads on this target
    assert!(e.kind().as_u16() == (b[4] as u16) | ((b[5] as u16) << 8));
    let t = e.created_at().as_u64();
    let mut expect: u64 = 0;
    let mut n = 0;
    while n < 8 { expect |= (b[8 + n] as u64) << (8 * n); n += 1; }
    assert!(t == expect);
}
