// Addr::try_from_bytes on "<kind>:<64 hex>:<d>" with a symbolic d (may itself contain ':'): BOUNDED (d up to 6 bytes,
// fixed 5-digit kind and fixed author) -- counterexample search / regression net, never counted as proved
#[kani::proof]
#[kani::unwind(80)]
fn addr_d_is_everything_after_second_colon() {
    let mut input = [0u8; 77];
    let kind = b"30023";
    let mut i = 0;
    while i < 5 { input[i] = kind[i]; i += 1; }
    input[5] = b':';
    let mut j = 0;
    while j < 64 { input[6 + j] = b'a'; j += 1; }
    input[70] = b':';
    let d: [u8; 6] = kani::any();
    let dlen: usize = kani::any();
    kani::assume(dlen <= 6);
    let mut k = 0;
    while k < 6 { input[71 + k] = d[k]; k += 1; }
    let r = Addr::try_from_bytes(&input[..71 + dlen]);
    assert!(r.is_ok());
    let a = r.unwrap();
    assert!(a.kind.as_u16() == 30023);
    assert!(a.d.len() == dlen);
    let m: usize = kani::any();
    kani::assume(m < dlen);
    assert!(a.d[m] == d[m]);
    kani::cover!(dlen == 6 && d[2] == b':');
}
