// Kind classification over all 65536 kinds: complete (loop-free)
#[kani::proof]
fn kind_classification_contract() {
    let k: u16 = kani::any();
    let kind = Kind::from_u16(k);
    assert!(kind.is_replaceable() == (k == 0 || k == 3 || (10000 <= k && k <= 19999)));
    assert!(kind.is_ephemeral() == (20000 <= k && k <= 29999));
    assert!(kind.is_parameterized_replaceable() == (30000 <= k && k <= 39999));
    assert!(kind.as_u16() == k);
    let k2: Kind = k.into();
    assert!(k2 == kind);
    assert!(*kind == k);
}
