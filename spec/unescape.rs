// ---- spec/unescape.rs: the bytes a JSON string body denotes (RFC 8259 section 7), read from s[0] up to its closing quote.
// Written from the grammar, not from the state machine in json_unescape:
//   string-body = *( unescaped / "\" ( %x22 / "\" / "/" / b / f / n / r / t / u 4HEXDIG ) ) followed by %x22
//   unescaped   = %x20-21 / %x23-5B / %x5D-10FFFF   (as UTF-8)
// \u escapes naming a surrogate (D800-DFFF) are outside this spec (the property excludes surrogate-pair escapes).
pub open spec fn hexv(c: u8) -> Option<int> {
    if 48 <= c <= 57 { Some(c - 48) } else if 65 <= c <= 70 { Some(c - 55) } else if 97 <= c <= 102 { Some(c - 87) } else { None }
}
pub open spec fn simple_esc(e: u8) -> Option<u8> {
    if e == 0x22 { Some(0x22u8) } else if e == 0x5C { Some(0x5Cu8) } else if e == 0x2F { Some(0x2Fu8) }
    else if e == 0x62 { Some(0x08u8) } else if e == 0x66 { Some(0x0Cu8) } else if e == 0x6E { Some(0x0Au8) }
    else if e == 0x72 { Some(0x0Du8) } else if e == 0x74 { Some(0x09u8) } else { None }
}
// value of four hex digits s[0..4]
pub open spec fn u4(s: Seq<u8>) -> Option<int> {
    match (hexv(s[0]), hexv(s[1]), hexv(s[2]), hexv(s[3])) {
        (Some(a), Some(b), Some(c), Some(d)) => Some(a * 4096 + b * 256 + c * 16 + d),
        _ => None,
    }
}
// RFC 3629: the bytes after the lead byte of a multi-byte sequence are continuation bytes (never ASCII)
pub open spec fn cont_ok(s: Seq<u8>) -> bool {
    let w = cp_width(s[0]);
    (w < 2 || s[1] >= 0x80) && (w < 3 || s[2] >= 0x80) && (w < 4 || s[3] >= 0x80)
}
// one item at the head of s: (input bytes it takes, bytes it denotes); None if no item starts here
pub open spec fn str_item(s: Seq<u8>) -> Option<(int, Seq<u8>)> {
    if s.len() == 0 || s.len() < cp_width(s[0]) { None }
    else if s[0] == 0x5C {
        if s.len() < 2 { None }
        else if s[1] == 0x75 {
            if s.len() < 6 { None }
            else {
                match u4(s.subrange(2, 6)) {
                    Some(v) => if 0xD800 <= v <= 0xDFFF { None } else { Some((6int, utf8_bytes(v as u32))) },
                    None => None,
                }
            }
        } else {
            match simple_esc(s[1]) { Some(b) => Some((2int, seq![b])), None => None }
        }
    }
    else if is_safe(cp_value(s)) && cont_ok(s) { Some((cp_width(s[0]), s.subrange(0, cp_width(s[0])))) }
    else { None }
}
// (offset of the closing quote, bytes denoted); None if the text is not a string body followed by a quote
#[verifier::opaque]
pub open spec fn unesc(s: Seq<u8>) -> Option<(int, Seq<u8>)>
    decreases s.len()
{
    if s.len() > 0 && s[0] == 0x22 { Some((0int, Seq::<u8>::empty())) }
    else {
        match str_item(s) {
            None => None,
            Some((n, b)) => {
                if n <= 0 || n > s.len() { None }
                else {
                    match unesc(s.subrange(n, s.len() as int)) {
                        None => None,
                        Some((m, v)) => Some((n + m, b + v)),
                    }
                }
            }
        }
    }
}
// the denoted bytes are never longer than the text
pub proof fn lemma_unesc_bounds(s: Seq<u8>)
    ensures unesc(s) is Some ==> 0 <= unesc(s)->Some_0.0 < s.len() && unesc(s)->Some_0.1.len() <= unesc(s)->Some_0.0
        && s[unesc(s)->Some_0.0] == 0x22
    decreases s.len()
{
    reveal(unesc);
    if s.len() > 0 && s[0] == 0x22 { }
    else {
        match str_item(s) {
            None => {},
            Some((n, b)) => {
                if n <= 0 || n > s.len() { } else {
                    let r = s.subrange(n, s.len() as int);
                    lemma_unesc_bounds(r);
                    if unesc(r) is Some {
                        assert(r[unesc(r)->Some_0.0] == s[n + unesc(r)->Some_0.0]);
                        if s[0] == 0x5C && s[1] == 0x75 { assert(utf8_bytes(u4(s.subrange(2, 6))->Some_0 as u32).len() <= 4); }
                    }
                }
            }
        }
    }
}
// ---- helpers for relating the digit-by-digit accumulation of a \uXXXX escape to u4 ----
pub open spec fn pow16(k: int) -> int { if k >= 3 { 4096 } else if k == 2 { 256 } else if k == 1 { 16 } else { 1 } }
// value contributed by the first d hex digits at s[base..]
pub open spec fn u4_partial(s: Seq<u8>, base: int, d: int) -> int
    decreases d
{
    if d <= 0 { 0 } else { u4_partial(s, base, d - 1) + hexv(s[base + d - 1])->Some_0 * pow16(3 - (d - 1)) }
}
pub proof fn lemma_u4_partial_full(s: Seq<u8>, base: int)
    requires 0 <= base, base + 4 <= s.len(), u4(s.subrange(base, base + 4)) is Some
    ensures u4_partial(s, base, 4) == u4(s.subrange(base, base + 4))->Some_0
{
    let t = s.subrange(base, base + 4);
    assert(t[0] == s[base] && t[1] == s[base + 1] && t[2] == s[base + 2] && t[3] == s[base + 3]);
    reveal_with_fuel(u4_partial, 5);
}
pub proof fn lemma_u4_digits(s: Seq<u8>)
    requires s.len() >= 4, u4(s.subrange(0, 4)) is Some
    ensures hexv(s[0]) is Some && hexv(s[1]) is Some && hexv(s[2]) is Some && hexv(s[3]) is Some
{
    let t = s.subrange(0, 4);
    assert(t[0] == s[0] && t[1] == s[1] && t[2] == s[2] && t[3] == s[3]);
}
// ---- one-step unfoldings of unesc, by the kind of item at the head (used by the proof of json_unescape) ----
pub proof fn lemma_unesc_safe(s: Seq<u8>)
    requires unesc(s) is Some, s.len() > 0, s[0] != 0x22, s[0] != 0x5C
    ensures is_safe(cp_value(s)), s.len() >= cp_width(s[0]), cont_ok(s),
        unesc(s.subrange(cp_width(s[0]), s.len() as int)) is Some,
        unesc(s) == Some((cp_width(s[0]) + unesc(s.subrange(cp_width(s[0]), s.len() as int))->Some_0.0,
                          s.subrange(0, cp_width(s[0])) + unesc(s.subrange(cp_width(s[0]), s.len() as int))->Some_0.1)),
{
    reveal(unesc);
}
pub proof fn lemma_unesc_backslash(s: Seq<u8>)
    requires unesc(s) is Some, s.len() > 0, s[0] == 0x5C
    ensures s.len() >= 2, s[1] < 0x80, s[1] == 0x75 || simple_esc(s[1]) is Some
{
    reveal(unesc);
}
pub proof fn lemma_unesc_simple(s: Seq<u8>)
    requires unesc(s) is Some, s.len() >= 2, s[0] == 0x5C, s[1] != 0x75
    ensures simple_esc(s[1]) is Some, unesc(s.subrange(2, s.len() as int)) is Some,
        unesc(s) == Some((2 + unesc(s.subrange(2, s.len() as int))->Some_0.0,
                          seq![simple_esc(s[1])->Some_0] + unesc(s.subrange(2, s.len() as int))->Some_0.1)),
{
    reveal(unesc);
}
pub proof fn lemma_unesc_u(s: Seq<u8>)
    requires unesc(s) is Some, s.len() >= 2, s[0] == 0x5C, s[1] == 0x75
    ensures s.len() >= 6,
        hexv(s[2]) is Some && hexv(s[3]) is Some && hexv(s[4]) is Some && hexv(s[5]) is Some,
        0 <= u4_partial(s, 2, 4) <= 0xFFFF, !(0xD800 <= u4_partial(s, 2, 4) <= 0xDFFF),
        unesc(s.subrange(6, s.len() as int)) is Some,
        unesc(s) == Some((6 + unesc(s.subrange(6, s.len() as int))->Some_0.0,
                          utf8_bytes(u4_partial(s, 2, 4) as u32) + unesc(s.subrange(6, s.len() as int))->Some_0.1)),
{
    reveal(unesc);
    let t = s.subrange(2, 6);
    assert(t[0] == s[2] && t[1] == s[3] && t[2] == s[4] && t[3] == s[5]);
    lemma_u4_partial_full(s, 2);
}
pub proof fn lemma_unesc_quote(s: Seq<u8>)
    requires s.len() > 0, s[0] == 0x22
    ensures unesc(s) == Some((0int, Seq::<u8>::empty()))
{
    reveal(unesc);
}
// the shift the implementation uses to place hex digit number d (0 = most significant) of a \uXXXX escape
pub proof fn lemma_shift_pow16(dv: u32, d: usize)
    requires dv < 16, d <= 3
    ensures (dv << ((4 * (3 - d)) as usize)) == dv * pow16(3 - d)
{
    if d == 0 { assert(dv << 12usize == dv * 4096) by (bit_vector) requires dv < 16; }
    else if d == 1 { assert(dv << 8usize == dv * 256) by (bit_vector) requires dv < 16; }
    else if d == 2 { assert(dv << 4usize == dv * 16) by (bit_vector) requires dv < 16; }
    else { assert(dv << 0usize == dv * 1) by (bit_vector) requires dv < 16; }
}
// the running state of a left-to-right reading: `pre` has been produced from input[..is], the rest still denotes what is
// needed to complete (nn, vv)
pub open spec fn reading(input: Seq<u8>, pre: Seq<u8>, is: int, nn: int, vv: Seq<u8>) -> bool {
    let r = unesc(input.subrange(is, input.len() as int));
    r is Some && nn == is + r->Some_0.0 && vv == pre + r->Some_0.1
}
pub proof fn lemma_reading_advance(input: Seq<u8>, pre: Seq<u8>, is: int, nn: int, vv: Seq<u8>, n: int, b: Seq<u8>)
    requires reading(input, pre, is, nn, vv), 0 <= is, 0 < n, is + n <= input.len(),
        unesc(input.subrange(is, input.len() as int).subrange(n, input.len() - is)) is Some,
        unesc(input.subrange(is, input.len() as int)) == Some((n + unesc(input.subrange(is, input.len() as int).subrange(n, input.len() - is))->Some_0.0,
              b + unesc(input.subrange(is, input.len() as int).subrange(n, input.len() - is))->Some_0.1)),
    ensures reading(input, pre + b, is + n, nn, vv)
{
    let ri = input.subrange(is, input.len() as int);
    assert(ri.subrange(n, input.len() - is) =~= input.subrange(is + n, input.len() as int));
    let r2 = unesc(input.subrange(is + n, input.len() as int));
    assert(vv =~= (pre + b) + r2->Some_0.1);
}
// ---- a JSON string token: opening quote at q, body, closing quote. (offset just past the closing quote, bytes denoted)
pub open spec fn jstr(input: Seq<u8>, q: int) -> Option<(int, Seq<u8>)> {
    if 0 <= q < input.len() && input[q] == 0x22 {
        match unesc(input.subrange(q + 1, input.len() as int)) {
            Some((n, v)) => Some((q + 1 + n + 1, v)),
            None => None,
        }
    } else { None }
}
pub proof fn lemma_jstr_bounds(input: Seq<u8>, q: int)
    ensures jstr(input, q) is Some ==> q + 2 <= jstr(input, q)->Some_0.0 <= input.len()
        && jstr(input, q)->Some_0.1.len() + 2 <= jstr(input, q)->Some_0.0 - q
        && input[jstr(input, q)->Some_0.0 - 1] == 0x22
{
    if jstr(input, q) is Some {
        let b = input.subrange(q + 1, input.len() as int);
        lemma_unesc_bounds(b);
        assert(b[unesc(b)->Some_0.0] == input[q + 1 + unesc(b)->Some_0.0]);
    }
}

// ---- skipping a string without decoding it (what burn_string does): position of the first quote that is not the second
// character of a backslash pair, or the end of input
pub open spec fn bs_end(s: Seq<u8>, i: int) -> int
    decreases s.len() - i
{
    if i < 0 || i >= s.len() { i }
    else if s[i] == 0x22 { i }
    else if s[i] == 0x5C && i + 1 < s.len() { bs_end(s, i + 2) }
    else { bs_end(s, i + 1) }
}
pub proof fn lemma_bs_end_bounds(s: Seq<u8>, i: int)
    requires 0 <= i <= s.len()
    ensures i <= bs_end(s, i) <= s.len(), bs_end(s, i) < s.len() ==> s[bs_end(s, i)] == 0x22
    decreases s.len() - i
{
    if i < s.len() && s[i] != 0x22 {
        if s[i] == 0x5C && i + 1 < s.len() { lemma_bs_end_bounds(s, i + 2); } else { lemma_bs_end_bounds(s, i + 1); }
    }
}
// on a legal string body the skip stops exactly at the closing quote the decoder finds
pub proof fn lemma_bs_end_unesc(s: Seq<u8>, i: int)
    requires 0 <= i <= s.len(), unesc(s.subrange(i, s.len() as int)) is Some
    ensures bs_end(s, i) == i + unesc(s.subrange(i, s.len() as int))->Some_0.0
    decreases s.len() - i
{
    let r = s.subrange(i, s.len() as int);
    lemma_unesc_bounds(r);
    assert(r[0] == s[i]);
    if r[0] == 0x22 {
        lemma_unesc_quote(r);
    } else if r[0] == 0x5C {
        lemma_unesc_backslash(r);
        assert(r[1] == s[i + 1]);
        if r[1] == 0x75 {
            lemma_unesc_u(r);
            assert(r.subrange(6, r.len() as int) =~= s.subrange(i + 6, s.len() as int));
            lemma_bs_end_unesc(s, i + 6);
            assert(r[2] == s[i + 2] && r[3] == s[i + 3] && r[4] == s[i + 4] && r[5] == s[i + 5]);
            // \u, then four hex digits, none of which is a quote or a backslash
            assert(bs_end(s, i) == bs_end(s, i + 2));
            assert(bs_end(s, i + 2) == bs_end(s, i + 3));
            assert(bs_end(s, i + 3) == bs_end(s, i + 4));
            assert(bs_end(s, i + 4) == bs_end(s, i + 5));
            assert(bs_end(s, i + 5) == bs_end(s, i + 6));
        } else {
            lemma_unesc_simple(r);
            assert(r.subrange(2, r.len() as int) =~= s.subrange(i + 2, s.len() as int));
            lemma_bs_end_unesc(s, i + 2);
        }
    } else {
        lemma_unesc_safe(r);
        let w = cp_width(r[0]);
        assert(r.subrange(w, r.len() as int) =~= s.subrange(i + w, s.len() as int));
        lemma_bs_end_unesc(s, i + w);
        assert(bs_end(s, i) == bs_end(s, i + 1));
        if w >= 2 { assert(r[1] == s[i + 1]); assert(bs_end(s, i + 1) == bs_end(s, i + 2)); }
        if w >= 3 { assert(r[2] == s[i + 2]); assert(bs_end(s, i + 2) == bs_end(s, i + 3)); }
        if w >= 4 { assert(r[3] == s[i + 3]); assert(bs_end(s, i + 3) == bs_end(s, i + 4)); }
    }
}
// ---- what json_unescape writes can always be rendered again by json_escape (C03: serializers are total on parsed values) ----
// appending one complete, renderable character keeps a string renderable
pub proof fn lemma_escapable_append(a: Seq<u8>, b: Seq<u8>)
    requires escapable(a), b.len() >= 1, b.len() == cp_width(b[0]), esc_ok(cp_value(b))
    ensures escapable(a + b)
    decreases a.len()
{
    if a.len() == 0 {
        assert(a + b =~= b);
        assert(b.subrange(b.len() as int, b.len() as int) =~= Seq::<u8>::empty());
        assert(escapable(Seq::<u8>::empty()));
        assert(escapable(b.subrange(cp_width(b[0]), b.len() as int)));
        assert(escapable(b));
    } else {
        let w = cp_width(a[0]);
        let t = a.subrange(w, a.len() as int);
        lemma_escapable_append(t, b);
        let ab = a + b;
        assert(ab[0] == a[0]);
        assert(ab.subrange(w, ab.len() as int) =~= t + b);
        // the first character of a + b is the first character of a
        assert(cp_value(ab) == cp_value(a)) by {
            if w >= 2 { assert(ab[1] == a[1]); }
            if w >= 3 { assert(ab[2] == a[2]); }
            if w >= 4 { assert(ab[3] == a[3]); }
        }
        assert(escapable(ab.subrange(w, ab.len() as int)));
        assert(escapable(ab));
    }
}
pub proof fn lemma_escapable_ascii(c: u8)
    requires c < 0x80, esc_ok(c as u32)
    ensures seq![c].len() == cp_width(c), cp_value(seq![c]) == c as u32
{
}
pub proof fn lemma_escapable_utf8(v: u32)
    requires v <= 0xFFFF, !(0xD800 <= v <= 0xDFFF)
    ensures utf8_bytes(v).len() >= 1, utf8_bytes(v).len() == cp_width(utf8_bytes(v)[0]), esc_ok(cp_value(utf8_bytes(v)))
{
    lemma_utf8_roundtrip(v);
}
