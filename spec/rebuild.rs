// ---- spec/rebuild.rs: vocabulary for the marker-copy loops of Store::rebuild ----
pub open spec fn naddr_key_of(p: (Addr, Time)) -> Seq<u8> { k_naddr(p.0.kind.0, pk_view(p.0.author), p.0.d@) }
// some pair among the first n re-encodes to key k
pub open spec fn marked_upto(ps: Seq<(Addr, Time)>, n: int, k: Seq<u8>) -> bool {
    exists|i: int| 0 <= i < n && #[trigger] naddr_key_of(ps[i]) == k
}
pub open spec fn max_marker(prev: Option<u64>, t: u64) -> u64 { match prev { Some(p) => if p > t { p } else { t }, None => t } }
