// ---- spec/vanish.rs: what a sequence of removals by id leaves behind (the removal loops of Store::vanish) ----
// the entry (table, k) belongs to the event that view d0 reaches under `id`
pub open spec fn id_hit(d0: Db, events: Map<int, Seq<u8>>, id: Seq<u8>, table: int, k: Seq<u8>) -> bool {
    db_get(d0, T_I(), id) is Some && is_event_key(events[db_get(d0, T_I(), id)->Some_0 as int], table, k)
}
pub open spec fn ids_removed_upto(d0: Db, events: Map<int, Seq<u8>>, ids: Seq<Seq<u8>>, n: int, table: int, k: Seq<u8>) -> bool {
    exists|i: int| 0 <= i < n && #[trigger] id_hit(d0, events, ids[i], table, k)
}
// over the WHOLE of every table (indexes, id table, both marker tables): d1 is d0 without the entries of the events
// reached under the first n ids -- nothing else removed, nothing added, no marker written
pub open spec fn db_minus_ids(d0: Db, d1: Db, events: Map<int, Seq<u8>>, ids: Seq<Seq<u8>>, n: int) -> bool {
    forall|table: int, k: Seq<u8>| #![trigger db_get(d1, table, k)] 1 <= table <= 9 ==>
        db_get(d1, table, k) == (if ids_removed_upto(d0, events, ids, n, table, k) { None::<u64> } else { db_get(d0, table, k) })
}
pub open spec fn ev_ids(s: Seq<&Event>) -> Seq<Seq<u8>> { Seq::new(s.len(), |i: int| ev_id(s[i].0@)) }

pub proof fn lemma_minus_ids_zero(d0: Db, events: Map<int, Seq<u8>>, ids: Seq<Seq<u8>>)
    ensures db_minus_ids(d0, d0, events, ids, 0)
{
}
// one more removal by id: remove_event's postcondition relative to the current view d1 extends the prefix by one
pub proof fn lemma_minus_ids_step(d0: Db, d1: Db, d2: Db, w: World, ids: Seq<Seq<u8>>, n: int)
    requires
        0 <= n < ids.len(), db_ok(d0, w), db_minus_ids(d0, d1, w.events, ids, n),
        db_get(d1, T_I(), ids[n]) is None ==> d2 == d1,
        db_get(d1, T_I(), ids[n]) is Some ==> db_minus_event(d1, d2, w.events[db_get(d1, T_I(), ids[n])->Some_0 as int]),
    ensures
        db_minus_ids(d0, d2, w.events, ids, n + 1)
{
    let ev = w.events;
    let idn = ids[n];
    assert forall|table: int, k: Seq<u8>| 1 <= table <= 9 implies
        #[trigger] db_get(d2, table, k) == (if ids_removed_upto(d0, ev, ids, n + 1, table, k) { None::<u64> } else { db_get(d0, table, k) }) by {
        // ids_removed_upto(n+1) == ids_removed_upto(n) || id_hit(ids[n])
        if ids_removed_upto(d0, ev, ids, n, table, k) {
            let i = choose|i: int| 0 <= i < n && #[trigger] id_hit(d0, ev, ids[i], table, k);
            assert(0 <= i < n + 1 && id_hit(d0, ev, ids[i], table, k));
        }
        if id_hit(d0, ev, idn, table, k) { assert(0 <= n < n + 1 && id_hit(d0, ev, ids[n], table, k)); }
        if ids_removed_upto(d0, ev, ids, n + 1, table, k) {
            let i = choose|i: int| 0 <= i < n + 1 && #[trigger] id_hit(d0, ev, ids[i], table, k);
            if i < n { assert(ids_removed_upto(d0, ev, ids, n, table, k)); }
        }
        assert(db_get(d1, T_I(), idn) == (if ids_removed_upto(d0, ev, ids, n, T_I(), idn) { None::<u64> } else { db_get(d0, T_I(), idn) }));
        if db_get(d1, T_I(), idn) is Some {
            // the event removed now is the one d0 reaches under ids[n]
            assert(db_get(d0, T_I(), idn) == db_get(d1, T_I(), idn));
        } else if db_get(d0, T_I(), idn) is Some {
            // d0 reaches an event under ids[n] but d1 no longer does: an earlier id removed it, and that id is ids[n]
            let i = choose|i: int| 0 <= i < n && #[trigger] id_hit(d0, ev, ids[i], T_I(), idn);
            let offi = db_get(d0, T_I(), ids[i])->Some_0;
            assert(d0.t[T_I()].contains_key(ids[i]));
            assert(is_event_key(ev[offi as int], T_I(), ids[i]));
            lemma_id_table_key(ev[offi as int], ids[i]);
            lemma_id_table_key(ev[offi as int], idn);
            assert(ids[i] == idn);
            if id_hit(d0, ev, idn, table, k) {
                assert(id_hit(d0, ev, ids[i], table, k));
                assert(ids_removed_upto(d0, ev, ids, n, table, k));
            }
        }
    }
}
