// ---- spec/deletion.rs: the ids a deletion request names, and "every named id ends up marked" (C11) ----
// tag t is an `e` tag whose value is a 64-digit hex string: the id it names
pub open spec fn e_target(tb: Seq<u8>, t: int) -> Option<Seq<u8>> {
    if t_nstr(tb, t) >= 2 && s_bytes(tb, t, 0) =~= seq![0x65u8] && s_bytes(tb, t, 1).len() == 64 && is_hex_str(s_bytes(tb, t, 1)) {
        Some(hex_decode(s_bytes(tb, t, 1)))
    } else { None }
}
pub open spec fn e_marked_upto(d: Db, tb: Seq<u8>, n: int) -> bool {
    forall|t: int| 0 <= t < n && (#[trigger] e_target(tb, t)) is Some ==> db_get(d, T_DELID(), e_target(tb, t)->Some_0) is Some
}
pub open spec fn delid_kept(d0: Db, d1: Db) -> bool {
    forall|k: Seq<u8>| db_get(d0, T_DELID(), k) is Some ==> (#[trigger] db_get(d1, T_DELID(), k)) is Some
}
// an event contributes keys to the seven index tables only, never to the two marker tables
pub proof fn lemma_event_key_tables(e: Seq<u8>, table: int, k: Seq<u8>)
    ensures is_event_key(e, table, k) ==> 1 <= table <= 7
{
    if !(1 <= table <= 7) { lemma_tag_key_tables(e, table, k, t_count(ev_tags(e))); }
}
pub proof fn lemma_minus_event_keeps_delid(d0: Db, d1: Db, e: Seq<u8>)
    requires db_minus_event(d0, d1, e)
    ensures delid_kept(d0, d1)
{
    assert forall|k: Seq<u8>| db_get(d0, T_DELID(), k) is Some implies (#[trigger] db_get(d1, T_DELID(), k)) is Some by {
        lemma_event_key_tables(e, T_DELID(), k);
    }
}
pub proof fn lemma_delid_kept_trans(d0: Db, d1: Db, d2: Db)
    requires delid_kept(d0, d1), delid_kept(d1, d2)
    ensures delid_kept(d0, d2)
{
}
pub proof fn lemma_marked_kept(d0: Db, d1: Db, tb: Seq<u8>, n: int)
    requires e_marked_upto(d0, tb, n), delid_kept(d0, d1)
    ensures e_marked_upto(d1, tb, n)
{
    assert forall|t: int| 0 <= t < n && (#[trigger] e_target(tb, t)) is Some implies db_get(d1, T_DELID(), e_target(tb, t)->Some_0) is Some by {
        assert(db_get(d0, T_DELID(), e_target(tb, t)->Some_0) is Some);
    }
}
pub proof fn lemma_range_removal_keeps_delid(d0: Db, d1: Db, tab: Table, lo: Seq<u8>, hi: Seq<u8>, w: World, only_kind: Option<u16>)
    requires
        forall|table: int, k: Seq<u8>| #![trigger db_get(d1, table, k)] 1 <= table <= 9 ==> db_get(d1, table, k) ==
            (if removed_by_range(tab, lo, hi, w, only_kind, table, k) { None::<u64> } else { db_get(d0, table, k) }),
    ensures delid_kept(d0, d1)
{
    assert forall|k: Seq<u8>| db_get(d0, T_DELID(), k) is Some implies (#[trigger] db_get(d1, T_DELID(), k)) is Some by {
        if removed_by_range(tab, lo, hi, w, only_kind, T_DELID(), k) {
            let k0 = choose|k0: Seq<u8>| #[trigger] in_range(tab, lo, hi, k0) && scan_selects(w, only_kind, tab[k0])
                && is_event_key(w.events[tab[k0] as int], T_DELID(), k);
            lemma_event_key_tables(w.events[tab[k0] as int], T_DELID(), k);
        }
    }
}
