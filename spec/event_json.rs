// ---- event JSON (what Event::as_json must emit; NIP-01 member order id, pubkey, kind, created_at, tags, content, sig) ----
pub open spec fn lit_ev_id() -> Seq<u8> { seq![0x7bu8, 0x22u8, 0x69u8, 0x64u8, 0x22u8, 0x3au8, 0x22u8] }   // {"id":"
pub open spec fn lit_ev_pubkey() -> Seq<u8> { seq![0x22u8, 0x2cu8, 0x22u8, 0x70u8, 0x75u8, 0x62u8, 0x6bu8, 0x65u8, 0x79u8, 0x22u8, 0x3au8, 0x22u8] }   // ","pubkey":"
pub open spec fn lit_ev_kind() -> Seq<u8> { seq![0x22u8, 0x2cu8, 0x22u8, 0x6bu8, 0x69u8, 0x6eu8, 0x64u8, 0x22u8, 0x3au8] }   // ","kind":
pub open spec fn lit_ev_created_at() -> Seq<u8> { seq![0x2cu8, 0x22u8, 0x63u8, 0x72u8, 0x65u8, 0x61u8, 0x74u8, 0x65u8, 0x64u8, 0x5fu8, 0x61u8, 0x74u8, 0x22u8, 0x3au8] }   // ,"created_at":
pub open spec fn lit_ev_tags() -> Seq<u8> { seq![0x2cu8, 0x22u8, 0x74u8, 0x61u8, 0x67u8, 0x73u8, 0x22u8, 0x3au8] }   // ,"tags":
pub open spec fn lit_ev_content() -> Seq<u8> { seq![0x2cu8, 0x22u8, 0x63u8, 0x6fu8, 0x6eu8, 0x74u8, 0x65u8, 0x6eu8, 0x74u8, 0x22u8, 0x3au8, 0x22u8] }   // ,"content":"
pub open spec fn lit_ev_sig() -> Seq<u8> { seq![0x22u8, 0x2cu8, 0x22u8, 0x73u8, 0x69u8, 0x67u8, 0x22u8, 0x3au8, 0x22u8] }   // ","sig":"
pub open spec fn lit_ev_end() -> Seq<u8> { seq![0x22u8, 0x7du8] }   // "}
// prefixes of the text, member by member
pub open spec fn ej_id(e: Seq<u8>) -> Seq<u8> { lit_ev_id() + hex_encode(ev_id(e)) }
pub open spec fn ej_pubkey(e: Seq<u8>) -> Seq<u8> { ej_id(e) + lit_ev_pubkey() + hex_encode(ev_pubkey(e)) }
pub open spec fn ej_kind(e: Seq<u8>) -> Seq<u8> { ej_pubkey(e) + lit_ev_kind() + dec_digits(ev_kind(e) as nat) }
pub open spec fn ej_created_at(e: Seq<u8>) -> Seq<u8> { ej_kind(e) + lit_ev_created_at() + dec_digits(ev_created_at(e) as nat) }
pub open spec fn ej_tags(e: Seq<u8>) -> Seq<u8> { ej_created_at(e) + lit_ev_tags() + tags_json(ev_tags(e)) }
pub open spec fn ej_content(e: Seq<u8>) -> Seq<u8> { ej_tags(e) + lit_ev_content() + escape(ev_content(e)) }
pub open spec fn ej_sig(e: Seq<u8>) -> Seq<u8> { ej_content(e) + lit_ev_sig() + hex_encode(ev_sig(e)) }
pub open spec fn event_json(e: Seq<u8>) -> Seq<u8> { ej_sig(e) + lit_ev_end() }
// ---- NIP-01 canonical serialisation [0,"<pubkey hex>",<created_at>,<kind>,<tags>,"<content>"] (what is hashed into the id) ----
pub open spec fn lit_can_open() -> Seq<u8> { seq![0x5bu8, 0x30u8, 0x2cu8, 0x22u8] }   // [0,"
pub open spec fn lit_can_q_comma() -> Seq<u8> { seq![0x22u8, 0x2cu8] }   // ",
pub open spec fn lit_can_comma() -> Seq<u8> { seq![0x2cu8] }   // ,
pub open spec fn lit_can_comma_q() -> Seq<u8> { seq![0x2cu8, 0x22u8] }   // ,"
pub open spec fn lit_can_close() -> Seq<u8> { seq![0x22u8, 0x5du8] }   // "]
pub open spec fn canonical(e: Seq<u8>) -> Seq<u8> {
    lit_can_open() + hex_encode(ev_pubkey(e)) + lit_can_q_comma() + dec_digits(ev_created_at(e) as nat) + lit_can_comma()
        + dec_digits(ev_kind(e) as nat) + lit_can_comma() + tags_json(ev_tags(e)) + lit_can_comma_q() + escape(ev_content(e)) + lit_can_close()
}
