// ---- spec/hex.rs: hexadecimal text <-> bytes ----
pub open spec fn is_hex_char(c: u8) -> bool {
    (0x30 <= c <= 0x39) || (0x41 <= c <= 0x46) || (0x61 <= c <= 0x66)
}
pub open spec fn hex_val(c: u8) -> int {
    if 0x30 <= c <= 0x39 { c - 0x30 } else if 0x41 <= c <= 0x46 { c - 0x41 + 10 } else { c - 0x61 + 10 }
}
pub open spec fn hex_byte(hi: u8, lo: u8) -> u8 { (hex_val(hi) * 16 + hex_val(lo)) as u8 }
pub open spec fn is_hex_str(s: Seq<u8>) -> bool {
    s.len() % 2 == 0 && forall|k: int| 0 <= k < s.len() ==> is_hex_char(#[trigger] s[k])
}
pub open spec fn hex_decode(s: Seq<u8>) -> Seq<u8> {
    Seq::new((s.len() / 2) as nat, |k: int| hex_byte(s[2 * k], s[2 * k + 1]))
}
pub open spec fn hex_digit_lc(d: int) -> u8 { if d < 10 { (0x30 + d) as u8 } else { (0x61 + d - 10) as u8 } }
pub open spec fn hex_encode(b: Seq<u8>) -> Seq<u8> {
    Seq::new((b.len() * 2) as nat, |k: int| if k % 2 == 0 { hex_digit_lc((b[k / 2] / 16) as int) } else { hex_digit_lc((b[k / 2] % 16) as int) })
}

// hex export followed by import is the identity
pub proof fn lemma_hex_roundtrip(b: Seq<u8>)
    ensures is_hex_str(hex_encode(b)), hex_decode(hex_encode(b)) =~= b
{
    let h = hex_encode(b);
    assert forall|k: int| 0 <= k < h.len() implies is_hex_char(#[trigger] h[k]) by { }
    assert(h.len() % 2 == 0);
    assert forall|k: int| 0 <= k < b.len() implies #[trigger] hex_decode(h)[k] == b[k] by {
        let hi = h[2 * k];
        let lo = h[2 * k + 1];
        assert(hi == hex_digit_lc((b[k] / 16) as int));
        assert(lo == hex_digit_lc((b[k] % 16) as int));
        assert(hex_val(hi) == b[k] / 16);
        assert(hex_val(lo) == b[k] % 16);
    }
}
