// ---- spec/flags.rs: bit-flag bookkeeping facts (u8 flag words) ----
pub open spec fn flag_bits_ok() -> bool {
    &&& (forall|c: u8, k: u8| #![trigger (c | k) & 0x20u8] (k & 0x20u8 == 0) ==> (((c | k) & 0x20u8 == 0x20u8) <==> (c & 0x20u8 == 0x20u8)))
    &&& (forall|c: u8| #![trigger c | 0x20u8] (c | 0x20u8) & 0x20u8 == 0x20u8)
    &&& (0x7fu8 & 0x20u8 == 0x20u8)
    &&& (0u8 & 0x20u8 == 0)
    &&& (0x01u8 & 0x20u8 == 0) && (0x02u8 & 0x20u8 == 0) && (0x04u8 & 0x20u8 == 0) && (0x08u8 & 0x20u8 == 0)
    &&& (0x10u8 & 0x20u8 == 0) && (0x40u8 & 0x20u8 == 0)
    // the same for the HAVE_TAGS bit
    &&& (forall|c: u8, k: u8| #![trigger (c | k) & 0x40u8] (k & 0x40u8 == 0) ==> (((c | k) & 0x40u8 == 0x40u8) <==> (c & 0x40u8 == 0x40u8)))
    &&& (forall|c: u8| #![trigger c | 0x40u8] (c | 0x40u8) & 0x40u8 == 0x40u8)
    &&& (0u8 & 0x40u8 == 0) && (0x01u8 & 0x40u8 == 0) && (0x02u8 & 0x40u8 == 0) && (0x04u8 & 0x40u8 == 0) && (0x08u8 & 0x40u8 == 0)
    &&& (0x10u8 & 0x40u8 == 0) && (0x20u8 & 0x40u8 == 0)
}
pub proof fn lemma_flag_bits()
    ensures flag_bits_ok()
{
    assert forall|c: u8, k: u8| #![trigger (c | k) & 0x20u8] (k & 0x20u8 == 0) implies (((c | k) & 0x20u8 == 0x20u8) <==> (c & 0x20u8 == 0x20u8)) by {
        assert((k & 0x20u8 == 0) ==> (((c | k) & 0x20u8 == 0x20u8) <==> (c & 0x20u8 == 0x20u8))) by (bit_vector);
    }
    assert forall|c: u8| #![trigger c | 0x20u8] (c | 0x20u8) & 0x20u8 == 0x20u8 by {
        assert((c | 0x20u8) & 0x20u8 == 0x20u8) by (bit_vector);
    }
    assert(0x7fu8 & 0x20u8 == 0x20u8) by (bit_vector);
    assert(0u8 & 0x20u8 == 0) by (bit_vector);
    assert(0x01u8 & 0x20u8 == 0) by (bit_vector);
    assert(0x02u8 & 0x20u8 == 0) by (bit_vector);
    assert(0x04u8 & 0x20u8 == 0) by (bit_vector);
    assert(0x08u8 & 0x20u8 == 0) by (bit_vector);
    assert(0x10u8 & 0x20u8 == 0) by (bit_vector);
    assert(0x40u8 & 0x20u8 == 0) by (bit_vector);
    assert forall|c: u8, k: u8| #![trigger (c | k) & 0x40u8] (k & 0x40u8 == 0) implies (((c | k) & 0x40u8 == 0x40u8) <==> (c & 0x40u8 == 0x40u8)) by {
        assert((k & 0x40u8 == 0) ==> (((c | k) & 0x40u8 == 0x40u8) <==> (c & 0x40u8 == 0x40u8))) by (bit_vector);
    }
    assert forall|c: u8| #![trigger c | 0x40u8] (c | 0x40u8) & 0x40u8 == 0x40u8 by {
        assert((c | 0x40u8) & 0x40u8 == 0x40u8) by (bit_vector);
    }
    assert(0u8 & 0x40u8 == 0) by (bit_vector);
    assert(0x01u8 & 0x40u8 == 0) by (bit_vector);
    assert(0x02u8 & 0x40u8 == 0) by (bit_vector);
    assert(0x04u8 & 0x40u8 == 0) by (bit_vector);
    assert(0x08u8 & 0x40u8 == 0) by (bit_vector);
    assert(0x10u8 & 0x40u8 == 0) by (bit_vector);
    assert(0x20u8 & 0x40u8 == 0) by (bit_vector);
}
