// ---- spec/jevent.rs: a nostr event object read by an independent, order-insensitive JSON object scan (RFC 8259 + NIP-01) ----
// Members are recognised by the raw bytes of their key (`"id"`, ...); any other member is skipped as `string : value`.
// A repeated NIP-01 member makes the text not an event (None).  The record holds, per member, the offset of its value.
pub struct JEv { pub id: int, pub pubkey: int, pub sig: int, pub created_at: int, pub kind: int, pub tags: int, pub content: int }
pub open spec fn jev_empty() -> JEv { JEv { id: -1, pubkey: -1, sig: -1, created_at: -1, kind: -1, tags: -1, content: -1 } }
pub open spec fn jev_complete(a: JEv) -> bool { a.id >= 0 && a.pubkey >= 0 && a.sig >= 0 && a.created_at >= 0 && a.kind >= 0 && a.tags >= 0 && a.content >= 0 }
pub open spec fn key_id() -> Seq<u8> { seq![0x69u8, 0x64u8, 0x22u8] }   // id"
pub open spec fn key_pubkey() -> Seq<u8> { seq![0x70u8, 0x75u8, 0x62u8, 0x6bu8, 0x65u8, 0x79u8, 0x22u8] }   // pubkey"
pub open spec fn key_sig() -> Seq<u8> { seq![0x73u8, 0x69u8, 0x67u8, 0x22u8] }   // sig"
pub open spec fn key_created_at() -> Seq<u8> { seq![0x63u8, 0x72u8, 0x65u8, 0x61u8, 0x74u8, 0x65u8, 0x64u8, 0x5fu8, 0x61u8, 0x74u8, 0x22u8] }   // created_at"
pub open spec fn key_kind() -> Seq<u8> { seq![0x6bu8, 0x69u8, 0x6eu8, 0x64u8, 0x22u8] }   // kind"
pub open spec fn key_tags() -> Seq<u8> { seq![0x74u8, 0x61u8, 0x67u8, 0x73u8, 0x22u8] }   // tags"
pub open spec fn key_content() -> Seq<u8> { seq![0x63u8, 0x6fu8, 0x6eu8, 0x74u8, 0x65u8, 0x6eu8, 0x74u8, 0x22u8] }   // content"
// which member the key whose opening quote is at p names: 0 id, 1 pubkey, 2 sig, 3 created_at, 4 kind, 5 tags, 6 content, 7 other
#[verifier::opaque]
pub open spec fn key_which(s: Seq<u8>, p: int) -> int {
    if lit_at(s, p + 1, key_id()) { 0 } else if lit_at(s, p + 1, key_pubkey()) { 1 } else if lit_at(s, p + 1, key_sig()) { 2 }
    else if lit_at(s, p + 1, key_created_at()) { 3 } else if lit_at(s, p + 1, key_kind()) { 4 } else if lit_at(s, p + 1, key_tags()) { 5 }
    else if lit_at(s, p + 1, key_content()) { 6 } else { 7 }
}
pub open spec fn key_len(k: int) -> int { if k == 0 { 3 } else if k == 1 { 7 } else if k == 2 { 4 } else if k == 3 { 11 } else if k == 4 { 5 } else if k == 5 { 5 } else { 8 } }
pub open spec fn jev_get(a: JEv, k: int) -> int {
    if k == 0 { a.id } else if k == 1 { a.pubkey } else if k == 2 { a.sig } else if k == 3 { a.created_at } else if k == 4 { a.kind } else if k == 5 { a.tags } else { a.content }
}
pub open spec fn jev_set(a: JEv, k: int, v: int) -> JEv {
    if k == 0 { JEv { id: v, ..a } } else if k == 1 { JEv { pubkey: v, ..a } } else if k == 2 { JEv { sig: v, ..a } }
    else if k == 3 { JEv { created_at: v, ..a } } else if k == 4 { JEv { kind: v, ..a } } else if k == 5 { JEv { tags: v, ..a } } else { JEv { content: v, ..a } }
}
// offset just past the value of a NIP-01 member of kind k whose value starts at v (None: not of the shape NIP-01 requires)
pub open spec fn field_end(s: Seq<u8>, v: int, k: int) -> Option<int> {
    if k == 0 || k == 1 {
        if 0 <= v && v + 66 <= s.len() && s[v] == 0x22 && s[v + 65] == 0x22 && is_hex_str(s.subrange(v + 1, v + 65)) { Some(v + 66) } else { None }
    } else if k == 2 {
        if 0 <= v && v + 130 <= s.len() && s[v] == 0x22 && s[v + 129] == 0x22 && is_hex_str(s.subrange(v + 1, v + 129)) { Some(v + 130) } else { None }
    } else if k == 3 {
        if 0 <= v && digits_end(s, v) > v && digits_val(s, v, digits_end(s, v)) <= u64::MAX { Some(digits_end(s, v)) } else { None }
    } else if k == 4 {
        if 0 <= v && digits_end(s, v) > v && digits_val(s, v, digits_end(s, v)) <= 65535 { Some(digits_end(s, v)) } else { None }
    } else if k == 5 {
        match jtags(s, v) { Some((e, t)) => Some(e), None => None }
    } else {
        match jstr(s, v) { Some((e, c)) => Some(e), None => None }
    }
}
// one member at p (its key's opening quote): (offset just past its value, record afterwards)
#[verifier::opaque]
pub open spec fn jev_member(s: Seq<u8>, p: int, acc: JEv) -> Option<(int, JEv)> {
    let k = key_which(s, p);
    if k == 7 { match jmember(s, p) { Some(e) => Some((e, acc)), None => None } }
    else if jev_get(acc, k) >= 0 { None }
    else {
        let c = ws_end(s, p + 1 + key_len(k));
        if c < 0 || c >= s.len() || s[c] != 0x3A { None }
        else {
            let v = ws_end(s, c + 1);
            match field_end(s, v, k) { Some(e) => Some((e, jev_set(acc, k, v))), None => None }
        }
    }
}
// the members from the one at p to the closing brace: (offset just past "}", record)
#[verifier::opaque]
pub open spec fn jev_scan(s: Seq<u8>, p: int, acc: JEv) -> Option<(int, JEv)>
    decreases s.len() - p
{
    if p < 0 || p >= s.len() || s[p] != 0x22 { None }
    else {
        match jev_member(s, p, acc) {
            None => None,
            Some((e, acc2)) => {
                let e2 = ws_end(s, e);
                if e2 < 0 || e2 >= s.len() { None }
                else if s[e2] == 0x2C { let p2 = ws_end(s, e2 + 1); if p2 <= p || p2 > s.len() { None } else { jev_scan(s, p2, acc2) } }
                else if s[e2] == 0x7D { Some((e2 + 1, acc2)) }
                else { None }
            }
        }
    }
}
// the event object at the start of the text: (offset just past its "}", where each NIP-01 member's value starts)
pub open spec fn jevent(s: Seq<u8>) -> Option<(int, JEv)> {
    let a = ws_end(s, 0);
    if a < 0 || a >= s.len() || s[a] != 0x7B { None }
    else {
        match jev_scan(s, ws_end(s, a + 1), jev_empty()) {
            Some((e, r)) => if jev_complete(r) { Some((e, r)) } else { None },
            None => None,
        }
    }
}
// the values an independent parser extracts
pub open spec fn jev_id(s: Seq<u8>, r: JEv) -> Seq<u8> { hex_decode(s.subrange(r.id + 1, r.id + 65)) }
pub open spec fn jev_pubkey(s: Seq<u8>, r: JEv) -> Seq<u8> { hex_decode(s.subrange(r.pubkey + 1, r.pubkey + 65)) }
pub open spec fn jev_sig(s: Seq<u8>, r: JEv) -> Seq<u8> { hex_decode(s.subrange(r.sig + 1, r.sig + 129)) }
pub open spec fn jev_created_at(s: Seq<u8>, r: JEv) -> nat { digits_val(s, r.created_at, digits_end(s, r.created_at)) }
pub open spec fn jev_kind(s: Seq<u8>, r: JEv) -> nat { digits_val(s, r.kind, digits_end(s, r.kind)) }
pub open spec fn jev_tags(s: Seq<u8>, r: JEv) -> TagsView { jtags(s, r.tags)->Some_0.1 }
pub open spec fn jev_content(s: Seq<u8>, r: JEv) -> Seq<u8> { jstr(s, r.content)->Some_0.1 }
// one-step unfolding of the scan
pub proof fn lemma_jev_scan_step(s: Seq<u8>, p: int, acc: JEv)
    requires jev_scan(s, p, acc) is Some
    ensures 0 <= p < s.len(), s[p] == 0x22, jev_member(s, p, acc) is Some,
        ({
            let e = jev_member(s, p, acc)->Some_0.0;
            let acc2 = jev_member(s, p, acc)->Some_0.1;
            let e2 = ws_end(s, e);
            let p2 = ws_end(s, e2 + 1);
            &&& 0 <= e2 < s.len()
            &&& (s[e2] == 0x2C || s[e2] == 0x7D)
            &&& s[e2] == 0x2C ==> jev_scan(s, p2, acc2) == jev_scan(s, p, acc)
            &&& s[e2] == 0x7D ==> jev_scan(s, p, acc) == Some((e2 + 1, acc2))
        }),
{
    reveal(jev_scan);
}
// a member that is already in the record is never changed by the rest of the scan
pub proof fn lemma_jev_scan_keeps(s: Seq<u8>, p: int, acc: JEv, k: int)
    requires jev_scan(s, p, acc) is Some, 0 <= k <= 6, jev_get(acc, k) >= 0
    ensures jev_get(jev_scan(s, p, acc)->Some_0.1, k) == jev_get(acc, k)
    decreases s.len() - p
{
    reveal(jev_scan);
    reveal(jev_member);
    let e = jev_member(s, p, acc)->Some_0.0;
    let acc2 = jev_member(s, p, acc)->Some_0.1;
    assert(jev_get(acc2, k) == jev_get(acc, k));
    let e2 = ws_end(s, e);
    if s[e2] == 0x2C { lemma_jev_scan_keeps(s, ws_end(s, e2 + 1), acc2, k); }
}
// ---- what the output buffer holds for the members read so far (ts = size of the tags section, 0 = not yet written;
// cw = the content has been written) ----
#[verifier::opaque]
pub open spec fn vals_ok(s: Seq<u8>, o: Seq<u8>, a: JEv, ts: int, cw: bool) -> bool {
    &&& a.id >= 0 ==> o.subrange(16, 48) == jev_id(s, a)
    &&& a.pubkey >= 0 ==> o.subrange(48, 80) == jev_pubkey(s, a)
    &&& a.sig >= 0 ==> o.subrange(80, 144) == jev_sig(s, a)
    &&& a.kind >= 0 ==> ne16(o.subrange(4, 6)) == jev_kind(s, a)
    &&& a.created_at >= 0 ==> ne64(o.subrange(8, 16)) == jev_created_at(s, a)
    &&& a.tags >= 0 ==> (ts >= 4 && 144 + ts <= o.len() && jtags(s, a.tags) is Some && tags_view(o.subrange(144, 144 + ts)) == jev_tags(s, a))
    &&& cw ==> (a.content >= 0 && ts >= 4 && jstr(s, a.content) is Some && 144 + ts + 4 + jev_content(s, a).len() <= o.len()
            && u32_at(o, 144 + ts) == jev_content(s, a).len()
            && o.subrange(144 + ts + 4, 144 + ts + 4 + jev_content(s, a).len()) == jev_content(s, a))
}
// a write confined to [lo, hi) with hi <= 144 that misses the fixed fields already read leaves everything read so far as it is
pub proof fn lemma_vals_frame(s: Seq<u8>, o1: Seq<u8>, o2: Seq<u8>, a: JEv, ts: int, cw: bool, lo: int, hi: int)
    requires vals_ok(s, o1, a, ts, cw), o1.len() == o2.len(), o1.len() >= 152, 0 <= lo <= hi <= 144, 0 <= ts,
        forall|i: int| 0 <= i < o1.len() && !(lo <= i < hi) ==> #[trigger] o2[i] == o1[i],
        a.id >= 0 ==> (hi <= 16 || lo >= 48), a.pubkey >= 0 ==> (hi <= 48 || lo >= 80), a.sig >= 0 ==> (hi <= 80 || lo >= 144),
        a.kind >= 0 ==> (hi <= 4 || lo >= 6), a.created_at >= 0 ==> (hi <= 8 || lo >= 16),
    ensures vals_ok(s, o2, a, ts, cw)
{
    reveal(vals_ok);
    if a.id >= 0 { assert(o2.subrange(16, 48) =~= o1.subrange(16, 48)); }
    if a.pubkey >= 0 { assert(o2.subrange(48, 80) =~= o1.subrange(48, 80)); }
    if a.sig >= 0 { assert(o2.subrange(80, 144) =~= o1.subrange(80, 144)); }
    if a.kind >= 0 { assert(o2.subrange(4, 6) =~= o1.subrange(4, 6)); }
    if a.created_at >= 0 { assert(o2.subrange(8, 16) =~= o1.subrange(8, 16)); }
    if a.tags >= 0 { assert(o2.subrange(144, 144 + ts) =~= o1.subrange(144, 144 + ts)); }
    if cw {
        let n = jev_content(s, a).len() as int;
        assert(o2.subrange(144 + ts, 144 + ts + 4) =~= o1.subrange(144 + ts, 144 + ts + 4));
        assert(o2.subrange(144 + ts + 4, 144 + ts + 4 + n) =~= o1.subrange(144 + ts + 4, 144 + ts + 4 + n));
    }
}
// writing the tags section (anything from offset 144 on) when neither tags nor content have been written
pub proof fn lemma_vals_frame_tail(s: Seq<u8>, o1: Seq<u8>, o2: Seq<u8>, a: JEv)
    requires vals_ok(s, o1, a, 0, false), o1.len() == o2.len(), o1.len() >= 152, a.tags < 0,
        forall|i: int| 0 <= i < 144 ==> #[trigger] o2[i] == o1[i],
    ensures vals_ok(s, o2, a, 0, false)
{
    reveal(vals_ok);
    if a.id >= 0 { assert(o2.subrange(16, 48) =~= o1.subrange(16, 48)); }
    if a.pubkey >= 0 { assert(o2.subrange(48, 80) =~= o1.subrange(48, 80)); }
    if a.sig >= 0 { assert(o2.subrange(80, 144) =~= o1.subrange(80, 144)); }
    if a.kind >= 0 { assert(o2.subrange(4, 6) =~= o1.subrange(4, 6)); }
    if a.created_at >= 0 { assert(o2.subrange(8, 16) =~= o1.subrange(8, 16)); }
}
// writing the content (the length field at 0..4 and anything from the end of the tags section on) when none was written
pub proof fn lemma_vals_frame_content(s: Seq<u8>, o1: Seq<u8>, o2: Seq<u8>, a: JEv, ts: int)
    requires vals_ok(s, o1, a, ts, false), o1.len() == o2.len(), o1.len() >= 152, 4 <= ts, 144 + ts <= o1.len(),
        forall|i: int| 4 <= i < 144 + ts ==> #[trigger] o2[i] == o1[i],
    ensures vals_ok(s, o2, a, ts, false)
{
    reveal(vals_ok);
    if a.id >= 0 { assert(o2.subrange(16, 48) =~= o1.subrange(16, 48)); }
    if a.pubkey >= 0 { assert(o2.subrange(48, 80) =~= o1.subrange(48, 80)); }
    if a.sig >= 0 { assert(o2.subrange(80, 144) =~= o1.subrange(80, 144)); }
    if a.kind >= 0 { assert(o2.subrange(4, 6) =~= o1.subrange(4, 6)); }
    if a.created_at >= 0 { assert(o2.subrange(8, 16) =~= o1.subrange(8, 16)); }
    if a.tags >= 0 { assert(o2.subrange(144, 144 + ts) =~= o1.subrange(144, 144 + ts)); }
}
// from the buffer to the accessor views of the finished event o[..m]
pub proof fn lemma_vals_final(s: Seq<u8>, o: Seq<u8>, a: JEv, ts: int, m: int)
    requires vals_ok(s, o, a, ts, true), jev_complete(a), 4 <= ts <= 65535, 152 <= m <= o.len(), u16_at(o, 144) == ts,
        m == 144 + ts + 4 + u32_at(o, 144 + ts),
    ensures ({
        let b = o.subrange(0, m);
        &&& ev_id(b) == jev_id(s, a) && ev_pubkey(b) == jev_pubkey(s, a) && ev_sig(b) == jev_sig(s, a)
        &&& ev_kind(b) == jev_kind(s, a) && ev_created_at(b) == jev_created_at(s, a)
        &&& tags_view(ev_tags(b)) == jev_tags(s, a) && ev_content(b) == jev_content(s, a)
    })
{
    reveal(vals_ok);
    let b = o.subrange(0, m);
    assert(b.subrange(16, 48) =~= o.subrange(16, 48));
    assert(b.subrange(48, 80) =~= o.subrange(48, 80));
    assert(b.subrange(80, 144) =~= o.subrange(80, 144));
    assert(b.subrange(4, 6) =~= o.subrange(4, 6));
    assert(b.subrange(8, 16) =~= o.subrange(8, 16));
    assert(b.subrange(144, 146) =~= o.subrange(144, 146));
    assert(b.subrange(144, 144 + ts) =~= o.subrange(144, 144 + ts));
    assert(b.subrange(144 + ts, 144 + ts + 4) =~= o.subrange(144 + ts, 144 + ts + 4));
    let n = jev_content(s, a).len() as int;
    assert(b.subrange(144 + ts + 4, 144 + ts + 4 + n) =~= o.subrange(144 + ts + 4, 144 + ts + 4 + n));
}
// ---- the key comparisons of the parser decide the member kind (the seven names are pairwise different) ----
pub proof fn lemma_key_is(s: Seq<u8>, p: int, k: int)
    requires 0 <= k <= 6,
        k == 0 ==> lit_at(s, p + 1, key_id()), k == 1 ==> lit_at(s, p + 1, key_pubkey()), k == 2 ==> lit_at(s, p + 1, key_sig()),
        k == 3 ==> lit_at(s, p + 1, key_created_at()), k == 4 ==> lit_at(s, p + 1, key_kind()), k == 5 ==> lit_at(s, p + 1, key_tags()),
        k == 6 ==> lit_at(s, p + 1, key_content()),
    ensures key_which(s, p) == k
{
    reveal(key_which);
    // the names differ in their first or second letter
    if lit_at(s, p + 1, key_id()) { assert(s.subrange(p + 1, p + 4)[0] == 0x69); }
    if lit_at(s, p + 1, key_pubkey()) { assert(s.subrange(p + 1, p + 8)[0] == 0x70); }
    if lit_at(s, p + 1, key_sig()) { assert(s.subrange(p + 1, p + 5)[0] == 0x73); }
    if lit_at(s, p + 1, key_created_at()) { assert(s.subrange(p + 1, p + 12)[0] == 0x63); assert(s.subrange(p + 1, p + 12)[1] == 0x72); }
    if lit_at(s, p + 1, key_kind()) { assert(s.subrange(p + 1, p + 6)[0] == 0x6b); }
    if lit_at(s, p + 1, key_tags()) { assert(s.subrange(p + 1, p + 6)[0] == 0x74); }
    if lit_at(s, p + 1, key_content()) { assert(s.subrange(p + 1, p + 9)[0] == 0x63); assert(s.subrange(p + 1, p + 9)[1] == 0x6f); }
}
pub proof fn lemma_key_other(s: Seq<u8>, p: int)
    requires !lit_at(s, p + 1, key_id()), !lit_at(s, p + 1, key_pubkey()), !lit_at(s, p + 1, key_sig()), !lit_at(s, p + 1, key_created_at()),
        !lit_at(s, p + 1, key_kind()), !lit_at(s, p + 1, key_tags()), !lit_at(s, p + 1, key_content()),
    ensures key_which(s, p) == 7
{
    reveal(key_which);
}
// what a member of a known kind looks like
pub proof fn lemma_jev_member_known(s: Seq<u8>, p: int, acc: JEv, k: int)
    requires jev_member(s, p, acc) is Some, key_which(s, p) == k, 0 <= k <= 6
    ensures ({
        let c = ws_end(s, p + 1 + key_len(k));
        let v = ws_end(s, c + 1);
        &&& jev_get(acc, k) < 0
        &&& 0 <= c < s.len() && s[c] == 0x3A
        &&& field_end(s, v, k) is Some
        &&& jev_member(s, p, acc) == Some((field_end(s, v, k)->Some_0, jev_set(acc, k, v)))
    })
{
    reveal(jev_member);
}
pub proof fn lemma_jev_member_other(s: Seq<u8>, p: int, acc: JEv)
    requires jev_member(s, p, acc) is Some, key_which(s, p) == 7
    ensures jmember(s, p) is Some, jev_member(s, p, acc) == Some((jmember(s, p)->Some_0, acc))
{
    reveal(jev_member);
}
// ---- recording one more member in the running record ----
pub proof fn lemma_vals_set_id(s: Seq<u8>, o: Seq<u8>, a: JEv, ts: int, cw: bool, v: int)
    requires vals_ok(s, o, a, ts, cw), v >= 0, o.subrange(16, 48) == hex_decode(s.subrange(v + 1, v + 65))
    ensures vals_ok(s, o, jev_set(a, 0, v), ts, cw)
{ reveal(vals_ok); }
pub proof fn lemma_vals_set_pubkey(s: Seq<u8>, o: Seq<u8>, a: JEv, ts: int, cw: bool, v: int)
    requires vals_ok(s, o, a, ts, cw), v >= 0, o.subrange(48, 80) == hex_decode(s.subrange(v + 1, v + 65))
    ensures vals_ok(s, o, jev_set(a, 1, v), ts, cw)
{ reveal(vals_ok); }
pub proof fn lemma_vals_set_sig(s: Seq<u8>, o: Seq<u8>, a: JEv, ts: int, cw: bool, v: int)
    requires vals_ok(s, o, a, ts, cw), v >= 0, o.subrange(80, 144) == hex_decode(s.subrange(v + 1, v + 129))
    ensures vals_ok(s, o, jev_set(a, 2, v), ts, cw)
{ reveal(vals_ok); }
pub proof fn lemma_vals_set_created_at(s: Seq<u8>, o: Seq<u8>, a: JEv, ts: int, cw: bool, v: int)
    requires vals_ok(s, o, a, ts, cw), v >= 0, ne64(o.subrange(8, 16)) == digits_val(s, v, digits_end(s, v))
    ensures vals_ok(s, o, jev_set(a, 3, v), ts, cw)
{ reveal(vals_ok); }
pub proof fn lemma_vals_set_kind(s: Seq<u8>, o: Seq<u8>, a: JEv, ts: int, cw: bool, v: int)
    requires vals_ok(s, o, a, ts, cw), v >= 0, ne16(o.subrange(4, 6)) == digits_val(s, v, digits_end(s, v))
    ensures vals_ok(s, o, jev_set(a, 4, v), ts, cw)
{ reveal(vals_ok); }
pub proof fn lemma_vals_set_tags(s: Seq<u8>, o: Seq<u8>, a: JEv, ts: int, v: int)
    requires vals_ok(s, o, a, 0, false), a.tags < 0, v >= 0, ts >= 4, 144 + ts <= o.len(), jtags(s, v) is Some,
        tags_view(o.subrange(144, 144 + ts)) == jtags(s, v)->Some_0.1
    ensures vals_ok(s, o, jev_set(a, 5, v), ts, false)
{ reveal(vals_ok); }
pub proof fn lemma_vals_set_content_pos(s: Seq<u8>, o: Seq<u8>, a: JEv, ts: int, v: int)
    requires vals_ok(s, o, a, ts, false), v >= 0
    ensures vals_ok(s, o, jev_set(a, 6, v), ts, false)
{ reveal(vals_ok); }
pub proof fn lemma_vals_content_written(s: Seq<u8>, o: Seq<u8>, a: JEv, ts: int)
    requires vals_ok(s, o, a, ts, false), a.content >= 0, ts >= 4, jstr(s, a.content) is Some,
        144 + ts + 4 + jstr(s, a.content)->Some_0.1.len() <= o.len(),
        u32_at(o, 144 + ts) == jstr(s, a.content)->Some_0.1.len(),
        o.subrange(144 + ts + 4, 144 + ts + 4 + jstr(s, a.content)->Some_0.1.len()) == jstr(s, a.content)->Some_0.1,
    ensures vals_ok(s, o, a, ts, true)
{ reveal(vals_ok); }
pub proof fn lemma_vals_empty(s: Seq<u8>, o: Seq<u8>)
    ensures vals_ok(s, o, jev_empty(), 0, false)
{ reveal(vals_ok); }
