// ---- spec/store.rs: consistency between the index tables and the event map ----
pub open spec fn world_inv(w: World) -> bool {
    &&& 8 <= w.map_end <= w.map.len()
    &&& forall|off: int| #[trigger] w.events.contains_key(off) ==>
            wf_event(w.events[off]) && 8 <= off && off % 8 == 0 && off + w.events[off].len() <= w.map_end
            && w.map.subrange(off, off + w.events[off].len()) == w.events[off]
}
pub open spec fn is_index_table(table: int) -> bool { 1 <= table <= 7 }
// every index entry points at a stored event, and is one of that event's own keys
pub open spec fn db_ok(d: Db, w: World) -> bool {
    forall|table: int, k: Seq<u8>| #![trigger d.t[table].contains_key(k)]
        is_index_table(table) && d.t[table].contains_key(k) ==>
            w.events.contains_key(d.t[table][k] as int) && is_event_key(w.events[d.t[table][k] as int], table, k)
}
pub open spec fn wf_store(s: Store) -> bool { wf_lmdb(s.indexes) }
// the world only grows: committed tables untouched, events only added
pub open spec fn world_ext(a: World, b: World) -> bool {
    a.committed == b.committed && a.events.submap_of(b.events)
}
// removing an event = dropping every one of its keys from every table
pub open spec fn db_minus_event(d0: Db, d1: Db, e: Seq<u8>) -> bool {
    forall|table: int, k: Seq<u8>| #![trigger db_get(d1, table, k)] 1 <= table <= 9 ==>
        db_get(d1, table, k) == (if is_event_key(e, table, k) { None::<u64> } else { db_get(d0, table, k) })
}
