// ---- spec/store.rs: consistency between the index tables and the event map ----
pub open spec fn world_inv(w: World) -> bool {
    &&& 8 <= w.map_end <= w.map.len()
    &&& w.flc == w.map.len() && w.file_len >= w.map.len() && w.map.len() % 8 == 0 && w.map.len() <= 0x7fff_ffff_0000_0000
    &&& forall|off: int| #[trigger] w.events.contains_key(off) ==>
            wf_event(w.events[off]) && 8 <= off && off % 8 == 0 && off + w.events[off].len() <= w.map_end
            && w.map.subrange(off, off + w.events[off].len()) == w.events[off]
}
pub open spec fn is_index_table(table: int) -> bool { 1 <= table <= 7 }
// every index entry points at a stored event, and is one of that event's own keys
pub open spec fn db_ok(d: Db, w: World) -> bool {
    forall|table: int, k: Seq<u8>| #![trigger d.t[table].contains_key(k)]
        is_index_table(table) && d.t[table].contains_key(k) ==>
            w.events.contains_key(d.t[table][k] as int) && is_event_key(w.events[d.t[table][k] as int], table, k)
}
pub open spec fn wf_store(s: Store) -> bool { wf_lmdb(s.indexes) }
// the world only grows: committed tables untouched, events only added
pub open spec fn world_ext(a: World, b: World) -> bool {
    a.committed == b.committed && a.events.submap_of(b.events)
}
// removing an event = dropping every one of its keys from every table
pub open spec fn db_minus_event(d0: Db, d1: Db, e: Seq<u8>) -> bool {
    forall|table: int, k: Seq<u8>| #![trigger db_get(d1, table, k)] 1 <= table <= 9 ==>
        db_get(d1, table, k) == (if is_event_key(e, table, k) { None::<u64> } else { db_get(d0, table, k) })
}
// ---- range scans over a table ----
pub open spec fn in_range(tab: Table, lo: Seq<u8>, hi: Seq<u8>, k: Seq<u8>) -> bool {
    tab.contains_key(k) && bytes_le(lo, k) && bytes_lt(k, hi)
}
// (table,k) is a key of one of the first n events yielded by a scan (optionally only those of kind `only_kind`)
pub open spec fn removed_upto(items: Seq<(Seq<u8>, u64)>, w: World, only_kind: Option<u16>, table: int, k: Seq<u8>, n: int) -> bool
    decreases n
{
    n > 0 && (removed_upto(items, w, only_kind, table, k, n - 1)
        || (scan_selects(w, only_kind, items[n - 1].1) && is_event_key(w.events[items[n - 1].1 as int], table, k)))
}
pub open spec fn scan_selects(w: World, only_kind: Option<u16>, off: u64) -> bool {
    match only_kind { None => true, Some(kd) => ev_kind(w.events[off as int]) == kd }
}
// (table,k) is a key of some event whose entry lies in the range (optionally only events of kind `only_kind`)
pub open spec fn removed_by_range(tab: Table, lo: Seq<u8>, hi: Seq<u8>, w: World, only_kind: Option<u16>, table: int, k: Seq<u8>) -> bool {
    exists|k0: Seq<u8>| #[trigger] in_range(tab, lo, hi, k0) && scan_selects(w, only_kind, tab[k0])
        && is_event_key(w.events[tab[k0] as int], table, k)
}
pub proof fn lemma_removed_upto_range(items: Seq<(Seq<u8>, u64)>, tab: Table, lo: Seq<u8>, hi: Seq<u8>, w: World,
        only_kind: Option<u16>, table: int, k: Seq<u8>, n: int)
    requires range_items_ok(items, tab, lo, hi, false), 0 <= n <= items.len()
    ensures removed_upto(items, w, only_kind, table, k, n) <==>
        (exists|i: int| 0 <= i < n && scan_selects(w, only_kind, items[i].1) && #[trigger] is_event_key(w.events[items[i].1 as int], table, k))
    decreases n
{
    if n > 0 {
        lemma_removed_upto_range(items, tab, lo, hi, w, only_kind, table, k, n - 1);
        if scan_selects(w, only_kind, items[n - 1].1) && is_event_key(w.events[items[n - 1].1 as int], table, k) {
            assert(is_event_key(w.events[items[n - 1].1 as int], table, k));
        }
    }
}
pub proof fn lemma_removed_all_range(items: Seq<(Seq<u8>, u64)>, tab: Table, lo: Seq<u8>, hi: Seq<u8>, w: World,
        only_kind: Option<u16>, table: int, k: Seq<u8>)
    requires range_items_ok(items, tab, lo, hi, false)
    ensures removed_upto(items, w, only_kind, table, k, items.len() as int) <==> removed_by_range(tab, lo, hi, w, only_kind, table, k)
{
    lemma_removed_upto_range(items, tab, lo, hi, w, only_kind, table, k, items.len() as int);
    if removed_upto(items, w, only_kind, table, k, items.len() as int) {
        let i = choose|i: int| 0 <= i < items.len() && scan_selects(w, only_kind, items[i].1) && #[trigger] is_event_key(w.events[items[i].1 as int], table, k);
        assert(tab.contains_key(items[i].0));
        assert(in_range(tab, lo, hi, items[i].0));
    }
    if removed_by_range(tab, lo, hi, w, only_kind, table, k) {
        let k0 = choose|k0: Seq<u8>| #[trigger] in_range(tab, lo, hi, k0) && scan_selects(w, only_kind, tab[k0]) && is_event_key(w.events[tab[k0] as int], table, k);
        assert(tab.contains_key(k0));
        let i = choose|i: int| 0 <= i < items.len() && #[trigger] items[i].0 == k0;
        assert(tab.contains_key(items[i].0));
        assert(is_event_key(w.events[items[i].1 as int], table, k));
    }
}
// ---- deltas between two transaction views (used to state "what a deletion request may touch") ----
pub open spec fn own_event_key(w: World, pk: Seq<u8>, table: int, k: Seq<u8>) -> bool {
    exists|off: int| #[trigger] w.events.contains_key(off) && ev_pubkey(w.events[off]) == pk && is_event_key(w.events[off], table, k)
}
pub open spec fn own_naddr_key(pk: Seq<u8>, k: Seq<u8>) -> bool {
    exists|kind: u16, d: Seq<u8>| k == #[trigger] k_naddr(kind, pk, d)
}
// what a deletion request authored by `pk` is allowed to change between views d0 and d1
pub open spec fn deletion_delta_ok(d0: Db, d1: Db, w: World, pk: Seq<u8>) -> bool {
    forall|table: int, k: Seq<u8>| #![trigger db_get(d1, table, k)] 1 <= table <= 9 && db_get(d1, table, k) != db_get(d0, table, k) ==> {
        if table == T_DELNADDR() { own_naddr_key(pk, k) }
        else if table == T_DELID() {
            // an id marker is only placed on an id that is not stored, or on the requester's own event
            db_get(w.committed, T_I(), k) is None || ev_pubkey(w.events[db_get(w.committed, T_I(), k)->Some_0 as int]) == pk
        }
        else { db_get(d1, table, k) is None && own_event_key(w, pk, table, k) }
    }
}
pub proof fn lemma_delta_trans(d0: Db, d1: Db, d2: Db, w: World, pk: Seq<u8>)
    requires deletion_delta_ok(d0, d1, w, pk), deletion_delta_ok(d1, d2, w, pk)
    ensures deletion_delta_ok(d0, d2, w, pk)
{
    assert forall|table: int, k: Seq<u8>| 1 <= table <= 9 && #[trigger] db_get(d2, table, k) != db_get(d0, table, k) implies ({
        if table == T_DELNADDR() { own_naddr_key(pk, k) }
        else if table == T_DELID() {
            db_get(w.committed, T_I(), k) is None || ev_pubkey(w.events[db_get(w.committed, T_I(), k)->Some_0 as int]) == pk
        }
        else { db_get(d2, table, k) is None && own_event_key(w, pk, table, k) }
    }) by {
        if db_get(d2, table, k) != db_get(d1, table, k) {
        } else {
            assert(db_get(d1, table, k) != db_get(d0, table, k));
        }
    }
}
// index tables only lose entries between d0 and d1
pub open spec fn index_shrinks(d0: Db, d1: Db) -> bool {
    forall|table: int, k: Seq<u8>| #![trigger db_get(d1, table, k)] is_index_table(table) && db_get(d1, table, k) is Some
        ==> db_get(d1, table, k) == db_get(d0, table, k)
}
pub proof fn lemma_db_ok_shrink(d0: Db, d1: Db, w: World)
    requires db_ok(d0, w), index_shrinks(d0, d1)
    ensures db_ok(d1, w)
{
    assert forall|table: int, k: Seq<u8>| is_index_table(table) && #[trigger] d1.t[table].contains_key(k) implies
        w.events.contains_key(d1.t[table][k] as int) && is_event_key(w.events[d1.t[table][k] as int], table, k) by {
        assert(db_get(d1, table, k) is Some);
        assert(db_get(d1, table, k) == db_get(d0, table, k));
        assert(d0.t[table].contains_key(k));
    }
}
// the id table of view d agrees with the committed one wherever it has an entry, except possibly for `newid`
pub open spec fn i_sub(d: Db, committed: Db, newid: Seq<u8>) -> bool {
    forall|k: Seq<u8>| #![trigger db_get(d, T_I(), k)] k != newid && db_get(d, T_I(), k) is Some ==> db_get(d, T_I(), k) == db_get(committed, T_I(), k)
}
// ---- lemmas: who owns the entries a range scan finds ----
pub proof fn lemma_tag_key_tables(e: Seq<u8>, table: int, k: Seq<u8>, n: int)
    requires table != T_TC() && table != T_ATC() && table != T_KTC()
    ensures !is_tag_key(e, table, k, n)
    decreases n
{
    if n > 0 { lemma_tag_key_tables(e, table, k, n - 1); }
}
pub proof fn lemma_tag_key_witness(e: Seq<u8>, table: int, k: Seq<u8>, n: int) -> (t: int)
    requires is_tag_key(e, table, k, n)
    ensures 0 <= t < n && tag_contrib(e, t, table, k)
    decreases n
{
    if tag_contrib(e, n - 1, table, k) { n - 1 } else { lemma_tag_key_witness(e, table, k, n - 1) }
}
// lo <= k < hi and lo, hi share their first n bytes  ==>  k starts with the same n bytes
pub proof fn lemma_prefix_squeeze(lo: Seq<u8>, hi: Seq<u8>, k: Seq<u8>, n: int)
    requires 0 <= n <= lo.len(), n <= hi.len(), n <= k.len(), lo.subrange(0, n) == hi.subrange(0, n),
        bytes_le(lo, k), bytes_lt(k, hi)
    ensures k.subrange(0, n) == lo.subrange(0, n)
    decreases n
{
    if n == 0 {
        assert(k.subrange(0, 0) =~= lo.subrange(0, 0));
    } else {
        assert(lo[0] == lo.subrange(0, n)[0]);
        assert(hi[0] == hi.subrange(0, n)[0]);
        // first bytes: lo[0] <= k[0] <= hi[0] == lo[0]
        if lo == k {
        } else {
            assert(bytes_lt(lo, k));
        }
        assert(k[0] == lo[0]) by {
            if lo != k { if lo[0] != k[0] { assert(lo[0] < k[0]); } }
            if k[0] != hi[0] { assert(k[0] < hi[0]); }
        }
        let lo1 = lo.subrange(1, lo.len() as int);
        let hi1 = hi.subrange(1, hi.len() as int);
        let k1 = k.subrange(1, k.len() as int);
        assert(lo1.subrange(0, n - 1) =~= lo.subrange(0, n).subrange(1, n));
        assert(hi1.subrange(0, n - 1) =~= hi.subrange(0, n).subrange(1, n));
        assert(bytes_le(lo1, k1)) by {
            if lo == k { assert(lo1 == k1); } else { assert(bytes_lt(lo1, k1)); }
        }
        assert(bytes_lt(k1, hi1));
        lemma_prefix_squeeze(lo1, hi1, k1, n - 1);
        assert(k.subrange(0, n) =~= seq![k[0]] + k1.subrange(0, n - 1));
        assert(lo.subrange(0, n) =~= seq![lo[0]] + lo1.subrange(0, n - 1));
    }
}
pub proof fn lemma_akc_range_owner(w: World, d: Db, a: Seq<u8>, kd: u16, until: u64, k0: Seq<u8>)
    requires world_inv(w), db_ok(d, w), a.len() == 32,
        in_range(db_tab(d, T_AKC()), k_akc(a, kd, until, zeros32()), k_akc(a, kd, 0, ffs32()), k0)
    ensures w.events.contains_key(db_tab(d, T_AKC())[k0] as int), ev_pubkey(w.events[db_tab(d, T_AKC())[k0] as int]) == a
{
    let tab = db_tab(d, T_AKC());
    assert(d.t[T_AKC()].contains_key(k0));
    let off = tab[k0] as int;
    let e = w.events[off];
    assert(is_event_key(e, T_AKC(), k0));
    lemma_tag_key_tables(e, T_AKC(), k0, t_count(ev_tags(e)));
    assert(k0 == k_akc(ev_pubkey(e), ev_kind(e), ev_created_at(e), ev_id(e)));
    let lo = k_akc(a, kd, until, zeros32());
    let hi = k_akc(a, kd, 0, ffs32());
    assert(lo.subrange(0, 32) =~= a);
    assert(hi.subrange(0, 32) =~= a);
    assert(wf_event(e));
    assert(ev_pubkey(e).len() == 32);
    lemma_prefix_squeeze(lo, hi, k0, 32);
    assert(k0.subrange(0, 32) =~= ev_pubkey(e));
}
pub proof fn lemma_atc_range_owner(w: World, d: Db, a: Seq<u8>, letter: u8, v: Seq<u8>, until: u64, k0: Seq<u8>)
    requires world_inv(w), db_ok(d, w), a.len() == 32,
        in_range(db_tab(d, T_ATC()), k_atc(a, letter, v, until, zeros32()), k_atc(a, letter, v, 0, ffs32()), k0)
    ensures w.events.contains_key(db_tab(d, T_ATC())[k0] as int), ev_pubkey(w.events[db_tab(d, T_ATC())[k0] as int]) == a
{
    let tab = db_tab(d, T_ATC());
    assert(d.t[T_ATC()].contains_key(k0));
    let off = tab[k0] as int;
    let e = w.events[off];
    assert(is_event_key(e, T_ATC(), k0));
    let t = lemma_tag_key_witness(e, T_ATC(), k0, t_count(ev_tags(e)));
    let tb = ev_tags(e);
    assert(k0 == k_atc(ev_pubkey(e), s_bytes(tb, t, 0)[0], s_bytes(tb, t, 1), ev_created_at(e), ev_id(e)));
    let lo = k_atc(a, letter, v, until, zeros32());
    let hi = k_atc(a, letter, v, 0, ffs32());
    assert(lo.subrange(0, 32) =~= a);
    assert(hi.subrange(0, 32) =~= a);
    assert(wf_event(e));
    assert(ev_pubkey(e).len() == 32);
    lemma_prefix_squeeze(lo, hi, k0, 32);
    assert(k0.subrange(0, 32) =~= ev_pubkey(e));
}
// removing one own event is an allowed delta
pub proof fn lemma_delta_remove_event(d0: Db, d1: Db, w: World, pk: Seq<u8>, off: int)
    requires w.events.contains_key(off), ev_pubkey(w.events[off]) == pk, db_minus_event(d0, d1, w.events[off])
    ensures deletion_delta_ok(d0, d1, w, pk), index_shrinks(d0, d1)
{
    let e = w.events[off];
    assert forall|table: int, k: Seq<u8>| 1 <= table <= 9 && #[trigger] db_get(d1, table, k) != db_get(d0, table, k) implies ({
        if table == T_DELNADDR() { own_naddr_key(pk, k) }
        else if table == T_DELID() { db_get(w.committed, T_I(), k) is None || ev_pubkey(w.events[db_get(w.committed, T_I(), k)->Some_0 as int]) == pk }
        else { db_get(d1, table, k) is None && own_event_key(w, pk, table, k) }
    }) by {
        assert(is_event_key(e, table, k));
        if table == T_DELNADDR() || table == T_DELID() { lemma_tag_key_tables(e, table, k, t_count(ev_tags(e))); }
        assert(w.events.contains_key(off));
    }
}
// removing every (selected) event of an author-prefixed range scan is an allowed delta
pub proof fn lemma_delta_remove_akc_range(d0: Db, d1: Db, w: World, pk: Seq<u8>, kd: u16, until: u64)
    requires world_inv(w), db_ok(w.committed, w), pk.len() == 32,
        forall|table: int, k: Seq<u8>| #![trigger db_get(d1, table, k)] 1 <= table <= 9 ==> db_get(d1, table, k) ==
            (if removed_by_range(db_tab(w.committed, T_AKC()), k_akc(pk, kd, until, zeros32()), k_akc(pk, kd, 0, ffs32()), w, None, table, k)
                { None::<u64> } else { db_get(d0, table, k) }),
    ensures deletion_delta_ok(d0, d1, w, pk), index_shrinks(d0, d1)
{
    let tab = db_tab(w.committed, T_AKC());
    let lo = k_akc(pk, kd, until, zeros32());
    let hi = k_akc(pk, kd, 0, ffs32());
    assert forall|table: int, k: Seq<u8>| 1 <= table <= 9 && #[trigger] db_get(d1, table, k) != db_get(d0, table, k) implies ({
        if table == T_DELNADDR() { own_naddr_key(pk, k) }
        else if table == T_DELID() { db_get(w.committed, T_I(), k) is None || ev_pubkey(w.events[db_get(w.committed, T_I(), k)->Some_0 as int]) == pk }
        else { db_get(d1, table, k) is None && own_event_key(w, pk, table, k) }
    }) by {
        assert(removed_by_range(tab, lo, hi, w, None, table, k));
        let k0 = choose|k0: Seq<u8>| #[trigger] in_range(tab, lo, hi, k0) && scan_selects(w, None, tab[k0]) && is_event_key(w.events[tab[k0] as int], table, k);
        lemma_akc_range_owner(w, w.committed, pk, kd, until, k0);
        let e = w.events[tab[k0] as int];
        if table == T_DELNADDR() || table == T_DELID() { lemma_tag_key_tables(e, table, k, t_count(ev_tags(e))); }
        assert(w.events.contains_key(tab[k0] as int));
    }
}
pub proof fn lemma_delta_remove_atc_range(d0: Db, d1: Db, w: World, pk: Seq<u8>, letter: u8, v: Seq<u8>, until: u64, only: Option<u16>)
    requires world_inv(w), db_ok(w.committed, w), pk.len() == 32,
        forall|table: int, k: Seq<u8>| #![trigger db_get(d1, table, k)] 1 <= table <= 9 ==> db_get(d1, table, k) ==
            (if removed_by_range(db_tab(w.committed, T_ATC()), k_atc(pk, letter, v, until, zeros32()), k_atc(pk, letter, v, 0, ffs32()), w, only, table, k)
                { None::<u64> } else { db_get(d0, table, k) }),
    ensures deletion_delta_ok(d0, d1, w, pk), index_shrinks(d0, d1)
{
    let tab = db_tab(w.committed, T_ATC());
    let lo = k_atc(pk, letter, v, until, zeros32());
    let hi = k_atc(pk, letter, v, 0, ffs32());
    assert forall|table: int, k: Seq<u8>| 1 <= table <= 9 && #[trigger] db_get(d1, table, k) != db_get(d0, table, k) implies ({
        if table == T_DELNADDR() { own_naddr_key(pk, k) }
        else if table == T_DELID() { db_get(w.committed, T_I(), k) is None || ev_pubkey(w.events[db_get(w.committed, T_I(), k)->Some_0 as int]) == pk }
        else { db_get(d1, table, k) is None && own_event_key(w, pk, table, k) }
    }) by {
        assert(removed_by_range(tab, lo, hi, w, only, table, k));
        let k0 = choose|k0: Seq<u8>| #[trigger] in_range(tab, lo, hi, k0) && scan_selects(w, only, tab[k0]) && is_event_key(w.events[tab[k0] as int], table, k);
        lemma_atc_range_owner(w, w.committed, pk, letter, v, until, k0);
        let e = w.events[tab[k0] as int];
        if table == T_DELNADDR() || table == T_DELID() { lemma_tag_key_tables(e, table, k, t_count(ev_tags(e))); }
        assert(w.events.contains_key(tab[k0] as int));
    }
}
// a change confined to one marker entry
pub proof fn lemma_delta_mark(d0: Db, d1: Db, w: World, pk: Seq<u8>, table0: int, k0: Seq<u8>)
    requires table0 == T_DELID() || table0 == T_DELNADDR(),
        forall|table: int, k: Seq<u8>| #![trigger db_get(d1, table, k)] 1 <= table <= 9 && !(table == table0 && k == k0) ==> db_get(d1, table, k) == db_get(d0, table, k),
        table0 == T_DELNADDR() ==> own_naddr_key(pk, k0),
        table0 == T_DELID() ==> (db_get(w.committed, T_I(), k0) is None || ev_pubkey(w.events[db_get(w.committed, T_I(), k0)->Some_0 as int]) == pk),
    ensures deletion_delta_ok(d0, d1, w, pk), index_shrinks(d0, d1)
{
}
pub proof fn lemma_delta_refl(d: Db, w: World, pk: Seq<u8>)
    ensures deletion_delta_ok(d, d, w, pk), index_shrinks(d, d)
{
}
pub proof fn lemma_shrink_trans(d0: Db, d1: Db, d2: Db)
    requires index_shrinks(d0, d1), index_shrinks(d1, d2)
    ensures index_shrinks(d0, d2)
{
    assert forall|table: int, k: Seq<u8>| is_index_table(table) && #[trigger] db_get(d2, table, k) is Some implies db_get(d2, table, k) == db_get(d0, table, k) by {
        assert(db_get(d2, table, k) == db_get(d1, table, k));
        assert(db_get(d1, table, k) is Some);
    }
}
pub proof fn lemma_db_ok_world_mono(d: Db, w: World, w2: World)
    requires db_ok(d, w), w.events.submap_of(w2.events)
    ensures db_ok(d, w2)
{
    assert forall|table: int, k: Seq<u8>| is_index_table(table) && #[trigger] d.t[table].contains_key(k) implies
        w2.events.contains_key(d.t[table][k] as int) && is_event_key(w2.events[d.t[table][k] as int], table, k) by {
        assert(w.events.contains_key(d.t[table][k] as int));
        assert(w.events.dom().contains(d.t[table][k] as int));
    }
}
pub proof fn lemma_db_ok_index(d0: Db, d1: Db, w: World, e: Seq<u8>, off: u64)
    requires db_ok(d0, w), w.events.contains_key(off as int), w.events[off as int] == e,
        forall|table: int, k: Seq<u8>| #![trigger db_get(d1, table, k)] 1 <= table <= 9 ==>
            db_get(d1, table, k) == (if is_event_key(e, table, k) { Some(off) } else { db_get(d0, table, k) }),
    ensures db_ok(d1, w)
{
    assert forall|table: int, k: Seq<u8>| is_index_table(table) && #[trigger] d1.t[table].contains_key(k) implies
        w.events.contains_key(d1.t[table][k] as int) && is_event_key(w.events[d1.t[table][k] as int], table, k) by {
        assert(db_get(d1, table, k) is Some);
        if is_event_key(e, table, k) {
        } else {
            assert(db_get(d0, table, k) is Some);
            assert(d0.t[table].contains_key(k));
        }
    }
}
// pointwise "only removed" implies index_shrinks
pub proof fn lemma_removed_shrinks(d0: Db, d1: Db)
    requires forall|table: int, k: Seq<u8>| #![trigger db_get(d1, table, k)] 1 <= table <= 9 ==>
        (db_get(d1, table, k) is None || db_get(d1, table, k) == db_get(d0, table, k))
    ensures index_shrinks(d0, d1)
{
}
// an event owns exactly one akc key
pub proof fn lemma_akc_key_unique(e: Seq<u8>, k: Seq<u8>, k0: Seq<u8>)
    requires is_event_key(e, T_AKC(), k), is_event_key(e, T_AKC(), k0)
    ensures k == k0, k == k_akc(ev_pubkey(e), ev_kind(e), ev_created_at(e), ev_id(e))
{
    lemma_tag_key_tables(e, T_AKC(), k, t_count(ev_tags(e)));
    lemma_tag_key_tables(e, T_AKC(), k0, t_count(ev_tags(e)));
}
// removing the events of the <= until sub-range leaves every other entry of the akc table alone
pub proof fn lemma_akc_survives(w: World, d: Db, a: Seq<u8>, kd: u16, until: u64, k: Seq<u8>)
    requires world_inv(w), db_ok(d, w), db_tab(d, T_AKC()).contains_key(k),
        !in_range(db_tab(d, T_AKC()), k_akc(a, kd, until, zeros32()), k_akc(a, kd, 0, ffs32()), k)
    ensures !removed_by_range(db_tab(d, T_AKC()), k_akc(a, kd, until, zeros32()), k_akc(a, kd, 0, ffs32()), w, None, T_AKC(), k)
{
    let tab = db_tab(d, T_AKC());
    let lo = k_akc(a, kd, until, zeros32());
    let hi = k_akc(a, kd, 0, ffs32());
    if removed_by_range(tab, lo, hi, w, None, T_AKC(), k) {
        let k0 = choose|k0: Seq<u8>| #[trigger] in_range(tab, lo, hi, k0) && scan_selects(w, None, tab[k0]) && is_event_key(w.events[tab[k0] as int], T_AKC(), k);
        assert(d.t[T_AKC()].contains_key(k0));
        let e = w.events[tab[k0] as int];
        assert(is_event_key(e, T_AKC(), k0));
        lemma_akc_key_unique(e, k, k0);
    }
}
pub open spec fn is_repl_kind(k: u16) -> bool { k == 0 || k == 3 || 10000 <= k <= 19999 }
// the map below the old end marker is untouched and no event was added: the invariant carries over
pub broadcast proof fn lemma_world_prefix(w0: World, w: World)
    requires
        #[trigger] world_inv(w0), w.events == w0.events,
        forall|i: int| 0 <= i < w0.map_end ==> #[trigger] w.map[i] == w0.map[i],
        w0.map_end <= w.map_end <= w.map.len(),
        w.flc == w.map.len() && w.file_len >= w.map.len() && w.map.len() % 8 == 0 && w.map.len() <= 0x7fff_ffff_0000_0000,
    ensures #[trigger] world_inv(w)
{
    assert forall|off: int| #[trigger] w.events.contains_key(off) implies
        wf_event(w.events[off]) && 8 <= off && off % 8 == 0 && off + w.events[off].len() <= w.map_end
        && w.map.subrange(off, off + w.events[off].len()) == w.events[off] by {
        let n = w.events[off].len() as int;
        assert(w0.events.contains_key(off));
        assert(w.map.subrange(off, off + n) =~= w0.map.subrange(off, off + n));
    }
}
// ... and appending one well-formed event at an aligned offset at or beyond the old end keeps it
pub broadcast proof fn lemma_world_append(w0: World, w: World, off: int, e: Seq<u8>)
    requires
        #[trigger] world_inv(w0), wf_event(e), w.events == #[trigger] w0.events.insert(off, e),
        forall|i: int| 0 <= i < w0.map_end ==> #[trigger] w.map[i] == w0.map[i],
        w0.map_end <= off, off % 8 == 0, w.map_end == off + e.len(), w.map_end <= w.map.len(),
        forall|i: int| 0 <= i < e.len() ==> #[trigger] w.map[off + i] == e[i],
        w.flc == w.map.len() && w.file_len >= w.map.len() && w.map.len() % 8 == 0 && w.map.len() <= 0x7fff_ffff_0000_0000,
    ensures #[trigger] world_inv(w), !w0.events.contains_key(off)
{
    if w0.events.contains_key(off) {
        assert(off + w0.events[off].len() <= w0.map_end);
        assert(wf_event(w0.events[off]));
    }
    assert forall|o: int| #[trigger] w.events.contains_key(o) implies
        wf_event(w.events[o]) && 8 <= o && o % 8 == 0 && o + w.events[o].len() <= w.map_end
        && w.map.subrange(o, o + w.events[o].len()) == w.events[o] by {
        if o != off {
            let n = w.events[o].len() as int;
            assert(w0.events.contains_key(o));
            assert(w.map.subrange(o, o + n) =~= w0.map.subrange(o, o + n));
        } else {
            assert forall|i: int| 0 <= i < e.len() implies #[trigger] w.map.subrange(off, off + e.len())[i] == e[i] by {
                assert(w.map[off + i] == e[i]);
            }
            assert(w.map.subrange(off, off + e.len()) =~= e);
        }
    }
}
pub open spec fn is_param_kind(k: u16) -> bool { 30000 <= k <= 39999 }
pub open spec fn d_name() -> Seq<u8> { seq![0x64u8] }
// an atc key: author(32) + letter + pad182(value) + rev_time(8) + id(32) = 255 bytes
pub proof fn lemma_atc_key_len(a: Seq<u8>, l: u8, v: Seq<u8>, t: u64, id: Seq<u8>)
    requires a.len() == 32, id.len() == 32
    ensures k_atc(a, l, v, t, id).len() == 255,
        k_atc(a, l, v, t, id).subrange(215, 255) =~= rev_time(t) + id,
        k_atc(a, l, v, t, id).subrange(0, 215) =~= a + seq![l] + pad182(v),
{
}
// removing the (kind-filtered) events of the <= until sub-range of a d-address leaves every other entry of that
// address range alone
pub proof fn lemma_atc_survives(w: World, d: Db, a: Seq<u8>, letter: u8, v: Seq<u8>, until: u64, only: Option<u16>, k: Seq<u8>)
    requires world_inv(w), db_ok(d, w), a.len() == 32,
        in_range(db_tab(d, T_ATC()), k_atc(a, letter, v, u64::MAX, zeros32()), k_atc(a, letter, v, 0, ffs32()), k),
        !in_range(db_tab(d, T_ATC()), k_atc(a, letter, v, until, zeros32()), k_atc(a, letter, v, 0, ffs32()), k)
    ensures !removed_by_range(db_tab(d, T_ATC()), k_atc(a, letter, v, until, zeros32()), k_atc(a, letter, v, 0, ffs32()), w, only, T_ATC(), k)
{
    let tab = db_tab(d, T_ATC());
    let lo = k_atc(a, letter, v, until, zeros32());
    let lo_full = k_atc(a, letter, v, u64::MAX, zeros32());
    let hi = k_atc(a, letter, v, 0, ffs32());
    if removed_by_range(tab, lo, hi, w, only, T_ATC(), k) {
        let k0 = choose|k0: Seq<u8>| #[trigger] in_range(tab, lo, hi, k0) && scan_selects(w, only, tab[k0]) && is_event_key(w.events[tab[k0] as int], T_ATC(), k);
        assert(d.t[T_ATC()].contains_key(k0));
        let e0 = w.events[tab[k0] as int];
        assert(is_event_key(e0, T_ATC(), k0));
        assert(wf_event(e0));
        // both k and k0 are atc keys of e0: same author, time and id; both lie in the address range: same 215-byte prefix
        let t1 = lemma_tag_key_witness(e0, T_ATC(), k, t_count(ev_tags(e0)));
        let t2 = lemma_tag_key_witness(e0, T_ATC(), k0, t_count(ev_tags(e0)));
        let tb = ev_tags(e0);
        lemma_atc_key_len(ev_pubkey(e0), s_bytes(tb, t1, 0)[0], s_bytes(tb, t1, 1), ev_created_at(e0), ev_id(e0));
        lemma_atc_key_len(ev_pubkey(e0), s_bytes(tb, t2, 0)[0], s_bytes(tb, t2, 1), ev_created_at(e0), ev_id(e0));
        lemma_atc_key_len(a, letter, v, until, zeros32());
        lemma_atc_key_len(a, letter, v, u64::MAX, zeros32());
        lemma_atc_key_len(a, letter, v, 0, ffs32());
        assert(lo.subrange(0, 215) == hi.subrange(0, 215));
        assert(lo_full.subrange(0, 215) == hi.subrange(0, 215));
        lemma_prefix_squeeze(lo, hi, k0, 215);
        lemma_prefix_squeeze(lo_full, hi, k, 215);
        assert(k =~= k.subrange(0, 215) + k.subrange(215, 255));
        assert(k0 =~= k0.subrange(0, 215) + k0.subrange(215, 255));
        assert(k == k0);
    }
}
// ---- rebuild: the strict byte order is irreflexive, so an ascending scan never meets a key twice ----
pub proof fn lemma_bytes_lt_irrefl(a: Seq<u8>)
    ensures !bytes_lt(a, a)
    decreases a.len()
{
    if a.len() > 0 { lemma_bytes_lt_irrefl(a.subrange(1, a.len() as int)); }
}
// in the id table an event has exactly one key: its id
pub proof fn lemma_no_tag_key_in_id_table(e: Seq<u8>, k: Seq<u8>, n: int)
    ensures !is_tag_key(e, T_I(), k, n)
    decreases n
{
    if n > 0 { lemma_no_tag_key_in_id_table(e, k, n - 1); }
}
pub proof fn lemma_id_table_key(e: Seq<u8>, k: Seq<u8>)
    ensures is_event_key(e, T_I(), k) == (k == ev_id(e))
{
    lemma_no_tag_key_in_id_table(e, k, t_count(ev_tags(e)));
}
// the items of a whole-table scan: every entry, once, ascending
pub open spec fn items_all(items: Seq<(Seq<u8>, u64)>, tab: Table) -> bool {
    &&& forall|i: int| 0 <= i < items.len() ==> #[trigger] tab.contains_key(items[i].0) && tab[items[i].0] == items[i].1
    &&& forall|k: Seq<u8>| #[trigger] tab.contains_key(k) ==> exists|i: int| 0 <= i < items.len() && #[trigger] items[i].0 == k
    &&& forall|i: int, j: int| 0 <= i < j < items.len() ==> bytes_lt(#[trigger] items[i].0, #[trigger] items[j].0)
}
