// ---- spec/store.rs: consistency between the index tables and the event map ----
pub open spec fn world_inv(w: World) -> bool {
    &&& 8 <= w.map_end <= w.map.len()
    &&& forall|off: int| #[trigger] w.events.contains_key(off) ==>
            wf_event(w.events[off]) && 8 <= off && off % 8 == 0 && off + w.events[off].len() <= w.map_end
            && w.map.subrange(off, off + w.events[off].len()) == w.events[off]
}
pub open spec fn is_index_table(table: int) -> bool { 1 <= table <= 7 }
// every index entry points at a stored event, and is one of that event's own keys
pub open spec fn db_ok(d: Db, w: World) -> bool {
    forall|table: int, k: Seq<u8>| #![trigger d.t[table].contains_key(k)]
        is_index_table(table) && d.t[table].contains_key(k) ==>
            w.events.contains_key(d.t[table][k] as int) && is_event_key(w.events[d.t[table][k] as int], table, k)
}
pub open spec fn wf_store(s: Store) -> bool { wf_lmdb(s.indexes) }
// the world only grows: committed tables untouched, events only added
pub open spec fn world_ext(a: World, b: World) -> bool {
    a.committed == b.committed && a.events.submap_of(b.events)
}
// removing an event = dropping every one of its keys from every table
pub open spec fn db_minus_event(d0: Db, d1: Db, e: Seq<u8>) -> bool {
    forall|table: int, k: Seq<u8>| #![trigger db_get(d1, table, k)] 1 <= table <= 9 ==>
        db_get(d1, table, k) == (if is_event_key(e, table, k) { None::<u64> } else { db_get(d0, table, k) })
}
// ---- range scans over a table ----
pub open spec fn in_range(tab: Table, lo: Seq<u8>, hi: Seq<u8>, k: Seq<u8>) -> bool {
    tab.contains_key(k) && bytes_le(lo, k) && bytes_lt(k, hi)
}
// (table,k) is a key of one of the first n events yielded by a scan (optionally only those of kind `only_kind`)
pub open spec fn removed_upto(items: Seq<(Seq<u8>, u64)>, w: World, only_kind: Option<u16>, table: int, k: Seq<u8>, n: int) -> bool
    decreases n
{
    n > 0 && (removed_upto(items, w, only_kind, table, k, n - 1)
        || (scan_selects(w, only_kind, items[n - 1].1) && is_event_key(w.events[items[n - 1].1 as int], table, k)))
}
pub open spec fn scan_selects(w: World, only_kind: Option<u16>, off: u64) -> bool {
    match only_kind { None => true, Some(kd) => ev_kind(w.events[off as int]) == kd }
}
// (table,k) is a key of some event whose entry lies in the range (optionally only events of kind `only_kind`)
pub open spec fn removed_by_range(tab: Table, lo: Seq<u8>, hi: Seq<u8>, w: World, only_kind: Option<u16>, table: int, k: Seq<u8>) -> bool {
    exists|k0: Seq<u8>| #[trigger] in_range(tab, lo, hi, k0) && scan_selects(w, only_kind, tab[k0])
        && is_event_key(w.events[tab[k0] as int], table, k)
}
pub proof fn lemma_removed_upto_range(items: Seq<(Seq<u8>, u64)>, tab: Table, lo: Seq<u8>, hi: Seq<u8>, w: World,
        only_kind: Option<u16>, table: int, k: Seq<u8>, n: int)
    requires range_items_ok(items, tab, lo, hi, false), 0 <= n <= items.len()
    ensures removed_upto(items, w, only_kind, table, k, n) <==>
        (exists|i: int| 0 <= i < n && scan_selects(w, only_kind, items[i].1) && #[trigger] is_event_key(w.events[items[i].1 as int], table, k))
    decreases n
{
    if n > 0 {
        lemma_removed_upto_range(items, tab, lo, hi, w, only_kind, table, k, n - 1);
        if scan_selects(w, only_kind, items[n - 1].1) && is_event_key(w.events[items[n - 1].1 as int], table, k) {
            assert(is_event_key(w.events[items[n - 1].1 as int], table, k));
        }
    }
}
pub proof fn lemma_removed_all_range(items: Seq<(Seq<u8>, u64)>, tab: Table, lo: Seq<u8>, hi: Seq<u8>, w: World,
        only_kind: Option<u16>, table: int, k: Seq<u8>)
    requires range_items_ok(items, tab, lo, hi, false)
    ensures removed_upto(items, w, only_kind, table, k, items.len() as int) <==> removed_by_range(tab, lo, hi, w, only_kind, table, k)
{
    lemma_removed_upto_range(items, tab, lo, hi, w, only_kind, table, k, items.len() as int);
    if removed_upto(items, w, only_kind, table, k, items.len() as int) {
        let i = choose|i: int| 0 <= i < items.len() && scan_selects(w, only_kind, items[i].1) && #[trigger] is_event_key(w.events[items[i].1 as int], table, k);
        assert(tab.contains_key(items[i].0));
        assert(in_range(tab, lo, hi, items[i].0));
    }
    if removed_by_range(tab, lo, hi, w, only_kind, table, k) {
        let k0 = choose|k0: Seq<u8>| #[trigger] in_range(tab, lo, hi, k0) && scan_selects(w, only_kind, tab[k0]) && is_event_key(w.events[tab[k0] as int], table, k);
        assert(tab.contains_key(k0));
        let i = choose|i: int| 0 <= i < items.len() && #[trigger] items[i].0 == k0;
        assert(tab.contains_key(items[i].0));
        assert(is_event_key(w.events[items[i].1 as int], table, k));
    }
}
