// ---- spec/reparse.rs: escaping then unescaping a string gives it back (C02, at the level of one string) ----
// canonical UTF-8: every character is the RFC 3629 encoding of its scalar value (no overlong forms, continuation bytes in place)
pub open spec fn utf8_canon(x: Seq<u8>) -> bool
    decreases x.len()
{
    if x.len() == 0 { true }
    else {
        let w = cp_width(x[0]);
        x.len() >= w && cp_value(x) <= 0x10FFFF && x.subrange(0, w) == utf8_bytes(cp_value(x)) && utf8_canon(x.subrange(w, x.len() as int))
    }
}
pub proof fn lemma_hexv_digit(d: nat)
    requires d < 16
    ensures hexv(hex_digit(d)) == Some(d as int)
{
}
// the \uXXXX escape json_escape writes for a control character decodes to that character
pub proof fn lemma_hex4_control(c: u32)
    requires c < 0x20
    ensures hex4(c as nat).len() == 4, u4(hex4(c as nat)) == Some(c as int)
{
    reveal_with_fuel(hex_digits, 3);
    let h = hex4(c as nat);
    if c < 0x10 {
        assert(hex_digits(c as nat) =~= seq![hex_digit(c as nat)]);
        assert(h =~= seq![48u8, 48u8, 48u8, hex_digit(c as nat)]);
        lemma_hexv_digit(c as nat);
    } else {
        assert(hex_digits(c as nat) =~= seq![hex_digit((c / 16) as nat), hex_digit((c % 16) as nat)]);
        assert(h =~= seq![48u8, 48u8, hex_digit((c / 16) as nat), hex_digit((c % 16) as nat)]);
        lemma_hexv_digit((c / 16) as nat);
        lemma_hexv_digit((c % 16) as nat);
    }
}
// one character: the escaped form of the first character of x, followed by anything, is one string item denoting that character
pub proof fn lemma_item_of_escaped(x: Seq<u8>, tail: Seq<u8>)
    requires x.len() > 0, x.len() >= cp_width(x[0]), esc_ok(cp_value(x)), cp_value(x) <= 0x10FFFF,
        x.subrange(0, cp_width(x[0])) == utf8_bytes(cp_value(x)),
    ensures ({
        let w = cp_width(x[0]);
        let e = esc_cp(cp_value(x), x.subrange(0, w));
        &&& e.len() >= 1 && (e + tail)[0] != 0x22
        &&& str_item(e + tail) == Some((e.len() as int, x.subrange(0, w)))
    })
{
    let w = cp_width(x[0]);
    let c = cp_value(x);
    let raw = x.subrange(0, w);
    let e = esc_cp(c, raw);
    let s = e + tail;
    lemma_utf8_roundtrip(c);
    if is_safe(c) {
        assert(e == raw);
        assert(s.subrange(0, w) =~= raw);
        assert(s[0] == raw[0] && raw[0] == x[0]);
        if w >= 2 { assert(s[1] == raw[1] && raw[1] == x[1]); }
        if w >= 3 { assert(s[2] == raw[2] && raw[2] == x[2]); }
        if w >= 4 { assert(s[3] == raw[3] && raw[3] == x[3]); }
        assert(cp_value(s) == c);
        // canonical encodings have continuation bytes >= 0x80 and an ASCII lead byte only for one-byte characters
        lemma_canon_cont(c);
        assert(cont_ok(s));
    } else if c == 0x08 || c == 0x09 || c == 0x0A || c == 0x0C || c == 0x0D || c == 0x22 || c == 0x5C {
        assert(raw =~= seq![c as u8]);
        assert(s[0] == 0x5C);
        assert(simple_esc(s[1]) == Some(c as u8));
    } else {
        assert(c < 0x20);
        lemma_hex4_control(c);
        let h = hex4(c as nat);
        assert(e =~= seq![0x5cu8, 0x75u8] + h);
        assert(s[0] == 0x5C && s[1] == 0x75);
        assert(s.subrange(2, 6) =~= h);
        assert(raw =~= seq![c as u8]);
        assert(utf8_bytes(c) =~= seq![c as u8]);
    }
}
pub proof fn lemma_canon_cont(c: u32)
    requires c <= 0x10FFFF
    ensures ({
        let b = utf8_bytes(c);
        &&& (b.len() < 2 || b[1] >= 0x80) && (b.len() < 3 || b[2] >= 0x80) && (b.len() < 4 || b[3] >= 0x80)
    })
{
    if c >= 0x80 {
        assert(((c & 0x3F) as u8 | 0x80u8) >= 0x80) by (bit_vector);
        assert((((c >> 6) & 0x3F) as u8 | 0x80u8) >= 0x80) by (bit_vector);
        assert((((c >> 12) & 0x3F) as u8 | 0x80u8) >= 0x80) by (bit_vector);
    }
}
// the whole string: unescaping the escaped text (closed by a quote, followed by anything) returns the string
pub proof fn lemma_unesc_escape(x: Seq<u8>, rest: Seq<u8>)
    requires escapable(x), utf8_canon(x)
    ensures unesc(escape(x) + seq![0x22u8] + rest) == Some((escape(x).len() as int, x))
    decreases x.len()
{
    reveal(unesc);
    let q = seq![0x22u8];
    if x.len() == 0 {
        assert(escape(x) =~= Seq::<u8>::empty());
        assert((escape(x) + q + rest)[0] == 0x22);
        assert(x =~= Seq::<u8>::empty());
    } else {
        let w = cp_width(x[0]);
        let c = cp_value(x);
        let raw = x.subrange(0, w);
        let xs = x.subrange(w, x.len() as int);
        let e = esc_cp(c, raw);
        let tail = escape(xs) + q + rest;
        lemma_unesc_escape(xs, rest);
        lemma_item_of_escaped(x, tail);
        let s = escape(x) + q + rest;
        assert(s =~= e + tail);
        assert((e + tail).subrange(e.len() as int, (e + tail).len() as int) =~= tail);
        assert(raw + xs =~= x);
        assert(escape(x).len() == e.len() + escape(xs).len());
    }
}
// ---- numbers: reading back the decimal text written for n gives n (kind, created_at, since, until, limit) ----
pub proof fn lemma_dec_digits_are_digits(n: nat)
    ensures dec_digits(n).len() >= 1, forall|i: int| 0 <= i < dec_digits(n).len() ==> is_digit(#[trigger] dec_digits(n)[i])
    decreases n
{
    if n >= 10 { lemma_dec_digits_are_digits(n / 10); }
}
pub proof fn lemma_digits_val_dec(s: Seq<u8>, p: int, n: nat)
    requires 0 <= p, p + dec_digits(n).len() <= s.len(),
        forall|i: int| 0 <= i < dec_digits(n).len() ==> #[trigger] s[p + i] == dec_digits(n)[i],
    ensures digits_val(s, p, p + dec_digits(n).len()) == n
    decreases n
{
    let l = dec_digits(n).len() as int;
    if n < 10 {
        assert(dec_digits(n) =~= seq![(48 + n) as u8]);
        assert(s[p + 0] == dec_digits(n)[0]);
        assert(digits_val(s, p, p) == 0);
    } else {
        let d = dec_digits(n / 10);
        assert(dec_digits(n) =~= d + seq![(48 + n % 10) as u8]);
        assert forall|i: int| 0 <= i < d.len() implies #[trigger] s[p + i] == d[i] by { assert(s[p + i] == dec_digits(n)[i]); }
        lemma_digits_val_dec(s, p, n / 10);
        assert(s[p + (l - 1)] == dec_digits(n)[l - 1]);
    }
}
pub proof fn lemma_digits_end_run(s: Seq<u8>, p: int, e: int)
    requires 0 <= p <= e <= s.len(), forall|k: int| p <= k < e ==> is_digit(#[trigger] s[k]), e < s.len() ==> !is_digit(s[e])
    ensures digits_end(s, p) == e
    decreases e - p
{
    if p < e { lemma_digits_end_run(s, p + 1, e); }
}
pub proof fn lemma_read_back_number(pre: Seq<u8>, n: nat, rest: Seq<u8>)
    requires rest.len() == 0 || !is_digit(rest[0])
    ensures ({
        let s = pre + dec_digits(n) + rest;
        let p = pre.len() as int;
        &&& digits_end(s, p) == p + dec_digits(n).len()
        &&& digits_val(s, p, digits_end(s, p)) == n
    })
{
    let s = pre + dec_digits(n) + rest;
    let p = pre.len() as int;
    let l = dec_digits(n).len() as int;
    lemma_dec_digits_are_digits(n);
    assert forall|i: int| 0 <= i < l implies #[trigger] s[p + i] == dec_digits(n)[i] by { }
    assert forall|k: int| p <= k < p + l implies is_digit(#[trigger] s[k]) by { assert(s[p + (k - p)] == dec_digits(n)[k - p]); }
    if p + l < s.len() { assert(s[p + l] == rest[0]); }
    lemma_digits_end_run(s, p, p + l);
    lemma_digits_val_dec(s, p, n);
}
