// ---- spec/hex_table.rs ----
// R13: contents of the repo's lookup tables, as copied into this unit
spec fn hex_table_ok() -> bool {
    forall|c: int| 0 <= c < 128 ==> #[trigger] HEX_INVERSE@[c] == (if is_hex_char(c as u8) { hex_val(c as u8) as u8 } else { 255u8 })
}
proof fn lemma_hex_inverse_table()
    ensures hex_table_ok()
{
}
