// ---- spec/escape.rs: JSON string escaping as NIP-01 / JSON.stringify define it ----
pub open spec fn is_safe(c: u32) -> bool {
    (0x20 <= c <= 0x21) || (0x23 <= c <= 0x5B) || (0x5D <= c <= 0x10FFFF)
}
// escape of one scalar value whose UTF-8 bytes are `raw`
pub open spec fn esc_cp(c: u32, raw: Seq<u8>) -> Seq<u8> {
    if is_safe(c) { raw }
    else if c == 0x08 { seq![0x5cu8, 0x62u8] }
    else if c == 0x09 { seq![0x5cu8, 0x74u8] }
    else if c == 0x0A { seq![0x5cu8, 0x6eu8] }
    else if c == 0x0C { seq![0x5cu8, 0x66u8] }
    else if c == 0x0D { seq![0x5cu8, 0x72u8] }
    else if c == 0x22 { seq![0x5cu8, 0x22u8] }
    else if c == 0x5C { seq![0x5cu8, 0x5cu8] }
    else { seq![0x5cu8, 0x75u8] + hex4(c as nat) }
}
// a scalar the escaper can render: safe, or one of the characters JSON requires to be escaped
pub open spec fn esc_ok(c: u32) -> bool { is_safe(c) || c < 0x20 || c == 0x22 || c == 0x5C }
// the whole string is a sequence of complete UTF-8 sequences of renderable scalars
pub open spec fn escapable(s: Seq<u8>) -> bool
    decreases s.len()
{
    if s.len() == 0 { true }
    else {
        let w = cp_width(s[0]);
        s.len() >= w && esc_ok(cp_value(s)) && escapable(s.subrange(w, s.len() as int))
    }
}
pub open spec fn escape(s: Seq<u8>) -> Seq<u8>
    decreases s.len()
{
    if s.len() == 0 { seq![] }
    else {
        let w = cp_width(s[0]);
        if s.len() < w { seq![] }
        else { esc_cp(cp_value(s), s.subrange(0, w)) + escape(s.subrange(w, s.len() as int)) }
    }
}

pub proof fn lemma_hexdigit_shift()
    ensures forall|dv: u32, sh: usize| dv < 16 && sh <= 12 ==> #[trigger] (dv << sh) <= 0xF000
{
    assert forall|dv: u32, sh: usize| dv < 16 && sh <= 12 implies #[trigger] (dv << sh) <= 0xF000 by {
        assert(dv < 16 && sh <= 12 ==> (dv << sh) <= 0xF000) by (bit_vector);
    }
}
