// ---- spec/jvalue.rs: where a JSON value ends (RFC 8259 grammar), for the members a parser skips ----
pub open spec fn is_numch(c: u8) -> bool { is_digit(c) || c == 0x2D || c == 0x2B || c == 0x2E || c == 0x65 || c == 0x45 }
// the characters burn_number takes: ".+-0123456789abcdefABCDEF_oOxXn"
pub open spec fn is_burnch(c: u8) -> bool {
    is_numch(c) || (0x61 <= c <= 0x66) || (0x41 <= c <= 0x46) || c == 0x5F || c == 0x6F || c == 0x4F || c == 0x78 || c == 0x58 || c == 0x6E
}
pub open spec fn num_end(s: Seq<u8>, i: int) -> int
    decreases s.len() - i
{
    if 0 <= i < s.len() && is_numch(s[i]) { num_end(s, i + 1) } else { i }
}
pub open spec fn burn_end(s: Seq<u8>, i: int) -> int
    decreases s.len() - i
{
    if 0 <= i < s.len() && is_burnch(s[i]) { burn_end(s, i + 1) } else { i }
}
// a number token: a non-empty run of number characters that is not followed by a letter the skipper would also take
// (after a value RFC 8259 allows only whitespace, ",", "]" or "}")
pub open spec fn jnumber(s: Seq<u8>, p: int) -> Option<int> {
    let e = num_end(s, p);
    if e > p && (e >= s.len() || !is_burnch(s[e])) { Some(e) } else { None }
}
pub proof fn lemma_burn_end_num(s: Seq<u8>, i: int, e: int)
    requires 0 <= i <= e <= s.len(), e == num_end(s, i), e >= s.len() || !is_burnch(s[e])
    ensures burn_end(s, i) == e
    decreases s.len() - i
{
    if i < s.len() && is_numch(s[i]) { lemma_burn_end_num(s, i + 1, e); }
}
pub open spec fn lit_at(s: Seq<u8>, p: int, l: Seq<u8>) -> bool { 0 <= p && p + l.len() <= s.len() && s.subrange(p, p + l.len()) =~= l }
pub open spec fn lit_true() -> Seq<u8> { seq![0x74u8, 0x72u8, 0x75u8, 0x65u8] }
pub open spec fn lit_false() -> Seq<u8> { seq![0x66u8, 0x61u8, 0x6cu8, 0x73u8, 0x65u8] }
pub open spec fn lit_null() -> Seq<u8> { seq![0x6eu8, 0x75u8, 0x6cu8, 0x6cu8] }
// offset just past the JSON value that starts at p
pub open spec fn jvalue(s: Seq<u8>, p: int) -> Option<int>
    decreases s.len() - p, 0int
{
    if p < 0 || p >= s.len() { None }
    else if s[p] == 0x22 { match jstr(s, p) { Some((e, v)) => Some(e), None => None } }
    else if s[p] == 0x5B { let q = ws_end(s, p + 1); if q <= p || q > s.len() { None } else { jarr(s, q, true) } }
    else if s[p] == 0x7B { let q = ws_end(s, p + 1); if q <= p || q > s.len() { None } else { jobj(s, q, true) } }
    else if s[p] == 0x74 { if lit_at(s, p, lit_true()) { Some(p + 4) } else { None } }
    else if s[p] == 0x66 { if lit_at(s, p, lit_false()) { Some(p + 5) } else { None } }
    else if s[p] == 0x6E { if lit_at(s, p, lit_null()) { Some(p + 4) } else { None } }
    else if s[p] == 0x2D || is_digit(s[p]) { jnumber(s, p) }
    else { None }
}
// the rest of an array: cursor at an element (or, if none has been read yet, possibly at "]")
pub open spec fn jarr(s: Seq<u8>, p: int, first: bool) -> Option<int>
    decreases s.len() - p, 1int
{
    if p < 0 || p >= s.len() { None }
    else if first && s[p] == 0x5D { Some(p + 1) }
    else {
        match jvalue(s, p) {
            None => None,
            Some(e) => {
                let e2 = ws_end(s, e);
                if e2 < 0 || e2 >= s.len() { None }
                else if s[e2] == 0x2C { let p2 = ws_end(s, e2 + 1); if p2 <= p || p2 > s.len() { None } else { jarr(s, p2, false) } }
                else if s[e2] == 0x5D { Some(e2 + 1) }
                else { None }
            }
        }
    }
}
// one member `"key" ws : ws value`, cursor at the key's opening quote: offset just past the value
pub open spec fn jmember(s: Seq<u8>, p: int) -> Option<int>
    decreases s.len() - p, 1int
{
    match jstr(s, p) {
        None => None,
        Some((ke, k)) => {
            let c = ws_end(s, ke);
            if c < 0 || c >= s.len() || s[c] != 0x3A { None }
            else {
                let v = ws_end(s, c + 1);
                if v <= p || v > s.len() { None } else { jvalue(s, v) }
            }
        }
    }
}
// the rest of an object: cursor at a member's key (or, if none has been read yet, possibly at "}")
pub open spec fn jobj(s: Seq<u8>, p: int, first: bool) -> Option<int>
    decreases s.len() - p, 2int
{
    if p < 0 || p >= s.len() { None }
    else if first && s[p] == 0x7D { Some(p + 1) }
    else {
        match jmember(s, p) {
            None => None,
            Some(e) => {
                let e2 = ws_end(s, e);
                if e2 < 0 || e2 >= s.len() { None }
                else if s[e2] == 0x2C { let p2 = ws_end(s, e2 + 1); if p2 <= p || p2 > s.len() { None } else { jobj(s, p2, false) } }
                else if s[e2] == 0x7D { Some(e2 + 1) }
                else { None }
            }
        }
    }
}
// ---- facts used by the proofs of the burn_* family ----
pub open spec fn is_wsc(c: u8) -> bool { is_ws(c) || c == 0x2C }
// a value never starts with whitespace, a comma or a closing bracket
pub proof fn lemma_jvalue_start(s: Seq<u8>, p: int)
    requires jvalue(s, p) is Some
    ensures 0 <= p < s.len(), !is_wsc(s[p]), s[p] != 0x5D, s[p] != 0x7D, jvalue(s, p)->Some_0 > p, jvalue(s, p)->Some_0 <= s.len()
    decreases s.len() - p, 0int
{
    if s[p] == 0x22 { lemma_jstr_bounds(s, p); }
    else if s[p] == 0x5B { let q = ws_end(s, p + 1); lemma_jarr_bounds(s, q, true); }
    else if s[p] == 0x7B { let q = ws_end(s, p + 1); lemma_jobj_bounds(s, q, true); }
    else if s[p] == 0x2D || is_digit(s[p]) { lemma_num_end_bounds(s, p); }
}
pub proof fn lemma_num_end_bounds(s: Seq<u8>, i: int)
    requires 0 <= i <= s.len()
    ensures i <= num_end(s, i) <= s.len()
    decreases s.len() - i
{
    if i < s.len() && is_numch(s[i]) { lemma_num_end_bounds(s, i + 1); }
}
pub proof fn lemma_jarr_bounds(s: Seq<u8>, p: int, first: bool)
    requires jarr(s, p, first) is Some
    ensures p < jarr(s, p, first)->Some_0 <= s.len()
    decreases s.len() - p, 1int
{
    if first && s[p] == 0x5D { }
    else {
        lemma_jvalue_start(s, p);
        let e = jvalue(s, p)->Some_0;
        let e2 = ws_end(s, e);
        lemma_ws_end(s, e);
        if s[e2] == 0x2C { let p2 = ws_end(s, e2 + 1); lemma_jarr_bounds(s, p2, false); }
    }
}
pub proof fn lemma_jobj_bounds(s: Seq<u8>, p: int, first: bool)
    requires jobj(s, p, first) is Some
    ensures p < jobj(s, p, first)->Some_0 <= s.len()
    decreases s.len() - p, 2int
{
    if first && s[p] == 0x7D { }
    else {
        lemma_jmember_bounds(s, p);
        let e = jmember(s, p)->Some_0;
        let e2 = ws_end(s, e);
        lemma_ws_end(s, e);
        if s[e2] == 0x2C { let p2 = ws_end(s, e2 + 1); lemma_jobj_bounds(s, p2, false); }
    }
}
pub proof fn lemma_jmember_bounds(s: Seq<u8>, p: int)
    requires jmember(s, p) is Some
    ensures 0 <= p < s.len(), s[p] == 0x22, p < jmember(s, p)->Some_0 <= s.len()
    decreases s.len() - p, 1int
{
    lemma_jstr_bounds(s, p);
    let ke = jstr(s, p)->Some_0.0;
    let c = ws_end(s, ke);
    let v = ws_end(s, c + 1);
    lemma_jvalue_start(s, v);
}
// the position eat_whitespace_and_commas stops at is determined by its characterisation
pub proof fn lemma_wsc_unique(s: Seq<u8>, a: int, r: int, t: int)
    requires 0 <= a <= r <= s.len(), a <= t <= s.len(),
        forall|k: int| a <= k < r ==> is_wsc(#[trigger] s[k]), r < s.len() ==> !is_wsc(s[r]),
        forall|k: int| a <= k < t ==> is_wsc(#[trigger] s[k]), t < s.len() ==> !is_wsc(s[t]),
    ensures r == t
{
    if r < t { assert(is_wsc(s[r])); } else if t < r { assert(is_wsc(s[t])); }
}
// after an element (array) or member (object) that ends at c: a comma and the rest, or the closing bracket `close`
pub open spec fn cont_ok_at(s: Seq<u8>, c: int, ee: int, close: u8, obj: bool) -> bool {
    let e2 = ws_end(s, c);
    &&& 0 <= e2 < s.len()
    &&& (s[e2] == 0x2C || s[e2] == close)
    &&& s[e2] == 0x2C ==> (if obj { jobj(s, ws_end(s, e2 + 1), false) == Some(ee) } else { jarr(s, ws_end(s, e2 + 1), false) == Some(ee) })
    &&& s[e2] == close ==> ee == e2 + 1
}
