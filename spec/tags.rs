// ---- spec/tags.rs: the packed Tags layout as a mathematical view (decoder style) ----
//   0..2 total length L | 2..4 tag count N | 4+2t.. offset of tag t | per tag: count, (len, bytes)*
pub open spec fn u16_at(b: Seq<u8>, i: int) -> int { ne16(b.subrange(i, i + 2)) as int }
pub open spec fn t_count(b: Seq<u8>) -> int { u16_at(b, 2) }
pub open spec fn t_off(b: Seq<u8>, t: int) -> int { u16_at(b, 4 + 2 * t) }
pub open spec fn t_nstr(b: Seq<u8>, t: int) -> int { u16_at(b, t_off(b, t)) }
// offset of the length field of string s of tag t (s == nstr gives the end of the tag)
pub open spec fn s_off(b: Seq<u8>, t: int, s: int) -> int
    decreases s
{
    if s <= 0 { t_off(b, t) + 2 } else { s_off(b, t, s - 1) + 2 + u16_at(b, s_off(b, t, s - 1)) }
}
pub open spec fn s_len(b: Seq<u8>, t: int, s: int) -> int { u16_at(b, s_off(b, t, s)) }
pub open spec fn s_bytes(b: Seq<u8>, t: int, s: int) -> Seq<u8> {
    b.subrange(s_off(b, t, s) + 2, s_off(b, t, s) + 2 + s_len(b, t, s))
}
pub open spec fn wf_tag(b: Seq<u8>, t: int) -> bool {
    &&& 4 + 2 * t_count(b) <= t_off(b, t)
    &&& t_off(b, t) + 2 <= b.len()
    &&& forall|s: int| 0 <= s < t_nstr(b, t) ==> #[trigger] s_off(b, t, s) + 2 + s_len(b, t, s) <= b.len()
}
pub open spec fn wf_tags(b: Seq<u8>) -> bool {
    &&& 4 <= b.len() <= 65535
    &&& u16_at(b, 0) == b.len()
    &&& 4 + 2 * t_count(b) <= b.len()
    &&& forall|t: int| 0 <= t < t_count(b) ==> #[trigger] wf_tag(b, t)
}
pub type TagsView = Seq<Seq<Seq<u8>>>;
pub open spec fn tag_view(b: Seq<u8>, t: int) -> Seq<Seq<u8>> {
    Seq::new(t_nstr(b, t) as nat, |s: int| s_bytes(b, t, s))
}
pub open spec fn tags_view(b: Seq<u8>) -> TagsView {
    Seq::new(t_count(b) as nat, |t: int| tag_view(b, t))
}
// offsets of strings are monotone and stay inside the buffer
pub proof fn lemma_s_off_bounds(b: Seq<u8>, t: int, s: int)
    requires wf_tags(b), 0 <= t < t_count(b), 0 <= s <= t_nstr(b, t)
    ensures t_off(b, t) + 2 + 2 * s <= s_off(b, t, s) <= b.len(),
        s < t_nstr(b, t) ==> s_off(b, t, s) + 2 + s_len(b, t, s) <= b.len(),
    decreases s
{
    assert(wf_tag(b, t));
    if s > 0 {
        lemma_s_off_bounds(b, t, s - 1);
        assert(s_off(b, t, s - 1) + 2 + s_len(b, t, s - 1) <= b.len());
        lemma_u16_at_range(b, s_off(b, t, s - 1));
    }
}
pub proof fn lemma_u16_at_range(b: Seq<u8>, i: int)
    ensures 0 <= u16_at(b, i) <= 65535
{
}
// NIP-01: "the event has at least one tag with that name whose first value equals v"
pub open spec fn tag_is(b: Seq<u8>, t: int, name: Seq<u8>, v: Seq<u8>) -> bool {
    t_nstr(b, t) >= 2 && s_bytes(b, t, 0) == name && s_bytes(b, t, 1) == v
}
pub open spec fn tags_match(b: Seq<u8>, name: Seq<u8>, v: Seq<u8>) -> bool {
    exists|t: int| 0 <= t < t_count(b) && #[trigger] tag_is(b, t, name, v)
}
pub open spec fn tag_named(b: Seq<u8>, t: int, name: Seq<u8>) -> bool {
    t_nstr(b, t) >= 1 && s_bytes(b, t, 0) == name
}
pub open spec fn first_named(b: Seq<u8>, name: Seq<u8>, t: int) -> bool {
    0 <= t < t_count(b) && tag_named(b, t, name) && (forall|u: int| 0 <= u < t ==> !#[trigger] tag_named(b, u, name))
}
// the value (second string) of the FIRST tag named `name`, if that tag has one
pub open spec fn tag_value(b: Seq<u8>, name: Seq<u8>) -> Option<Seq<u8>> {
    if exists|t: int| first_named(b, name, t) {
        let t = choose|t: int| first_named(b, name, t);
        if t_nstr(b, t) >= 2 { Some(s_bytes(b, t, 1)) } else { None }
    } else { None }
}
pub proof fn lemma_first_named_unique(b: Seq<u8>, name: Seq<u8>, t1: int, t2: int)
    requires first_named(b, name, t1), first_named(b, name, t2)
    ensures t1 == t2
{
    if t1 < t2 { assert(tag_named(b, t1, name)); } else if t2 < t1 { assert(tag_named(b, t2, name)); }
}
pub open spec fn opt_slice_view(o: Option<&[u8]>) -> Option<Seq<u8>> { match o { Some(s) => Some(s@), None => None } }
