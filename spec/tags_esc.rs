// ---- spec/tags_esc.rs: strings written by the JSON tag readers can be rendered again ----
pub open spec fn tag_esc(b: Seq<u8>, j: int) -> bool {
    forall|k: int| 0 <= k < u16_at(b, t_off(b, j)) ==> escapable(#[trigger] str_at(b, t_off(b, j) + 2, k))
}
pub proof fn lemma_tag_esc_frame(b: Seq<u8>, b2: Seq<u8>, j: int, n: int, limit: int)
    requires tag_done(b, j, n, limit), tag_esc(b, j), limit <= b.len(), b2.len() == b.len(), 0 <= j < n,
        forall|i: int| ((4 + 2 * j <= i < 4 + 2 * j + 2) || (t_off(b, j) <= i < tag_end_at(b, t_off(b, j)))) ==> #[trigger] b2[i] == b[i],
    ensures tag_esc(b2, j)
{
    lemma_tag_done_frame(b, b2, j, n, limit);
    let off = t_off(b, j);
    let ns = u16_at(b, off);
    lemma_so_mono(b, off + 2, 0, ns);
    assert(b2.subrange(off, off + 2) =~= b.subrange(off, off + 2));
    lemma_str_at_frame(b, b2, off + 2, ns);
    assert forall|k: int| 0 <= k < u16_at(b2, t_off(b2, j)) implies escapable(#[trigger] str_at(b2, t_off(b2, j) + 2, k)) by {
        assert(escapable(str_at(b, off + 2, k)));
    }
}
pub proof fn lemma_esc_from_layout(b: Seq<u8>, n: int, len: int)
    requires 4 <= len <= 65535, len <= b.len(), u16_at(b, 0) == len, u16_at(b, 2) == n, 0 <= n, 4 + 2 * n <= len,
        forall|j: int| 0 <= j < n ==> #[trigger] tag_done(b, j, n, len),
        forall|j: int| 0 <= j < n ==> #[trigger] tag_esc(b, j),
    // (the body of `tags_escapable(b.subrange(0, len))`, spec/json_out.rs)
    ensures forall|t: int, s: int| 0 <= t < t_count(b.subrange(0, len)) && 0 <= s < t_nstr(b.subrange(0, len), t) ==> escapable(#[trigger] s_bytes(b.subrange(0, len), t, s))
{
    let c = b.subrange(0, len);
    lemma_wf_from_layout(b, n, len);
    assert forall|i: int| 0 <= i && i + 2 <= len implies #[trigger] u16_at(c, i) == u16_at(b, i) by {
        assert(c.subrange(i, i + 2) =~= b.subrange(i, i + 2));
    }
    assert(t_count(c) == n);
    assert forall|t: int, s: int| 0 <= t < t_count(c) && 0 <= s < t_nstr(c, t) implies escapable(#[trigger] s_bytes(c, t, s)) by {
        assert(tag_done(b, t, n, len));
        assert(tag_esc(b, t));
        let off = t_off(b, t);
        assert(t_off(c, t) == off);
        let ns = u16_at(b, off);
        lemma_so_mono(b, off + 2, 0, ns);
        assert(u16_at(c, off) == ns);
        assert forall|i: int| off + 2 <= i < so(b, off + 2, ns) implies #[trigger] c[i] == b[i] by { }
        lemma_str_at_frame(b, c, off + 2, ns);
        lemma_so_is_s_off(c, t, s);
        assert(s_bytes(c, t, s) == str_at(c, off + 2, s));
        assert(escapable(str_at(b, off + 2, s)));
    }
}
