// ---- spec/tags_iter.rs: iterator states tied to the Tags view ----
pub open spec fn wf_tsi(it: TagsStringIter, t: int) -> bool {
    &&& wf_tags(it.tags.0@)
    &&& 0 <= t < t_count(it.tags.0@)
    &&& it.count == t_nstr(it.tags.0@, t)
    &&& it.next <= it.count
    &&& it.cur_offset == s_off(it.tags.0@, t, it.next as int)
}
