// ---- spec/dbkeys.rs: which (table, key) entries a stored event contributes to the indexes ----
pub open spec fn db_get(d: Db, table: int, k: Seq<u8>) -> Option<u64> {
    if d.t[table].contains_key(k) { Some(d.t[table][k]) } else { None }
}
// a tag is indexed when its name is a single byte and it has a value
pub open spec fn tag_indexable(tb: Seq<u8>, t: int) -> bool { t_nstr(tb, t) >= 2 && s_len(tb, t, 0) == 1 }
pub open spec fn tag_contrib(e: Seq<u8>, t: int, table: int, k: Seq<u8>) -> bool {
    let tb = ev_tags(e);
    tag_indexable(tb, t) && {
        let letter = s_bytes(tb, t, 0)[0];
        let v = s_bytes(tb, t, 1);
        ||| (table == T_TC() && k == k_tc(letter, v, ev_created_at(e), ev_id(e)))
        ||| (table == T_ATC() && k == k_atc(ev_pubkey(e), letter, v, ev_created_at(e), ev_id(e)))
        ||| (table == T_KTC() && k == k_ktc(ev_kind(e), letter, v, ev_created_at(e), ev_id(e)))
    }
}
pub open spec fn is_tag_key(e: Seq<u8>, table: int, k: Seq<u8>, n: int) -> bool
    decreases n
{
    n > 0 && (is_tag_key(e, table, k, n - 1) || tag_contrib(e, n - 1, table, k))
}
pub open spec fn is_fixed_key(e: Seq<u8>, table: int, k: Seq<u8>) -> bool {
    ||| (table == T_CI() && k == k_ci(ev_created_at(e), ev_id(e)))
    ||| (table == T_AKC() && k == k_akc(ev_pubkey(e), ev_kind(e), ev_created_at(e), ev_id(e)))
    ||| (table == T_AC() && k == k_ac(ev_pubkey(e), ev_created_at(e), ev_id(e)))
}
pub open spec fn is_id_key(e: Seq<u8>, table: int, k: Seq<u8>) -> bool { table == T_I() && k == ev_id(e) }
// every index entry of the event, over the whole of all tables
pub open spec fn is_event_key(e: Seq<u8>, table: int, k: Seq<u8>) -> bool {
    is_id_key(e, table, k) || is_fixed_key(e, table, k) || is_tag_key(e, table, k, t_count(ev_tags(e)))
}
pub open spec fn wf_lmdb(l: Lmdb) -> bool {
    &&& l.i_index.table@ == T_I() && l.ci_index.table@ == T_CI() && l.tc_index.table@ == T_TC()
    &&& l.ac_index.table@ == T_AC() && l.akc_index.table@ == T_AKC() && l.atc_index.table@ == T_ATC()
    &&& l.ktc_index.table@ == T_KTC() && l.deleted_ids.table@ == T_DELID() && l.deleted_naddrs.table@ == T_DELNADDR()
}
// frame helper: tables keep their identity
pub open spec fn same_tables(a: Db, b: Db) -> bool { a.t.dom() == b.t.dom() }
