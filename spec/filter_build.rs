// ---- spec/filter_build.rs: from the writer-side facts of parse_json_filter to wf_filter ----
pub proof fn lemma_wf_filter_from_layout(out: Seq<u8>, len: int, base: int, n: int)
    requires 36 <= len <= out.len(), len <= u32::MAX, u32_at(out, 0) == len,
        base == 32 + 32 * u16_at(out, 4) + 32 * u16_at(out, 6) + 2 * u16_at(out, 8),
        base + 4 + 2 * n <= len, 0 <= n, len - base <= 65535,
        u16_at(out, base) == len - base, u16_at(out, base + 2) == n,
        forall|j: int| 0 <= j < n ==> #[trigger] ftag_done(out, base, j, n, len),
    ensures wf_filter(out.subrange(0, len)), f_named(out.subrange(0, len))
{
    let c = out.subrange(0, len);
    assert forall|i: int| 0 <= i && i + 2 <= len implies #[trigger] u16_at(c, i) == u16_at(out, i) by {
        assert(c.subrange(i, i + 2) =~= out.subrange(i, i + 2));
    }
    assert(c.subrange(0, 4) =~= out.subrange(0, 4));
    assert(f_tags_start(c) == base);
    let tl = len - base;
    let s = out.subrange(base, out.len() as int);
    let ft = f_tags(c);
    assert(ft =~= s.subrange(0, tl));
    assert forall|i: int| 0 <= i && i + 2 <= out.len() - base implies #[trigger] u16_at(s, i) == u16_at(out, base + i) by {
        assert(s.subrange(i, i + 2) =~= out.subrange(base + i, base + i + 2));
    }
    assert forall|j: int| 0 <= j < n implies #[trigger] tag_done(s, j, n, tl) by {
        assert(ftag_done(out, base, j, n, len));
        let off = base + u16_at(out, base + 4 + 2 * j);
        let ns = u16_at(out, off);
        lemma_so_mono(out, off + 2, 0, ns);
        lemma_so_shift(out, base, off - base + 2, ns);
        assert(t_off(s, j) == off - base);
        assert(u16_at(s, off - base) == ns);
    }
    lemma_wf_from_layout(s, n, tl);
    assert forall|t: int| 0 <= t < t_count(ft) implies #[trigger] t_nstr(ft, t) >= 1 by {
        assert(ftag_done(out, base, t, n, len));
        let off = base + u16_at(out, base + 4 + 2 * t);
        assert forall|i: int| 0 <= i && i + 2 <= tl implies #[trigger] u16_at(ft, i) == u16_at(s, i) by {
            assert(ft.subrange(i, i + 2) =~= s.subrange(i, i + 2));
        }
        assert(u16_at(ft, 2) == n);
        assert(t_off(ft, t) == off - base);
        lemma_so_mono(out, off + 2, 0, u16_at(out, off));
        assert(u16_at(ft, off - base) == u16_at(out, off));
    }
}

// A write confined to [a, e) that lies at or below the tag-section length slot leaves every finished
// tag, and every 16-bit field outside [a, e), as it was.
pub proof fn lemma_ftags_frame_below(b: Seq<u8>, b2: Seq<u8>, base: int, n: int, limit: int, a: int, e: int)
    requires b2.len() == b.len(), limit <= b.len(), 0 <= base, 0 <= n, 0 <= a <= e <= base + 2, e <= b.len(),
        forall|i: int| 0 <= i < b.len() && !(a <= i < e) ==> #[trigger] b2[i] == b[i],
        forall|j: int| 0 <= j < n ==> #[trigger] ftag_done(b, base, j, n, limit),
    ensures
        forall|j: int| 0 <= j < n ==> #[trigger] ftag_done(b2, base, j, n, limit),
        forall|p: int| e <= p && p + 2 <= b.len() ==> #[trigger] u16_at(b2, p) == u16_at(b, p),
        forall|p: int| 0 <= p && p + 2 <= a ==> #[trigger] u16_at(b2, p) == u16_at(b, p),
{
    assert forall|p: int| e <= p && p + 2 <= b.len() implies #[trigger] u16_at(b2, p) == u16_at(b, p) by {
        assert(b2.subrange(p, p + 2) =~= b.subrange(p, p + 2));
    }
    assert forall|p: int| 0 <= p && p + 2 <= a implies #[trigger] u16_at(b2, p) == u16_at(b, p) by {
        assert(b2.subrange(p, p + 2) =~= b.subrange(p, p + 2));
    }
    assert forall|j: int| 0 <= j < n implies #[trigger] ftag_done(b2, base, j, n, limit) by {
        assert(ftag_done(b, base, j, n, limit));
        let offj = base + u16_at(b, base + 4 + 2 * j);
        lemma_so_mono(b, offj + 2, 0, u16_at(b, offj));
        lemma_ftag_done_frame(b, b2, base, j, n, limit);
    }
}

// ---- Filter::from_parts: the 32-byte header as one concatenation, and what it means for the field views ----
pub open spec fn filter_header(len: u32, ni: u16, na: u16, nk: u16, limit: u32, since: u64, until: u64) -> Seq<u8> {
    bytes32(len) + bytes16(ni) + bytes16(na) + bytes16(nk) + seq![0u8, 0u8] + bytes32(limit) + bytes64(since) + bytes64(until)
}
pub proof fn lemma_filter_header_fields(c: Seq<u8>, len: u32, ni: u16, na: u16, nk: u16, limit: u32, since: u64, until: u64)
    requires c.len() >= 32, c.subrange(0, 32) == filter_header(len, ni, na, nk, limit, since, until)
    ensures u32_at(c, 0) == len, f_nids(c) == ni, f_nauthors(c) == na, f_nkinds(c) == nk, c[10] == 0, c[11] == 0,
        f_limit(c) == limit, f_since(c) == since, f_until(c) == until
{
    broadcast use lemma_ne16_bytes16, lemma_ne32_bytes32, lemma_ne64_bytes64;
    let h = filter_header(len, ni, na, nk, limit, since, until);
    assert(h.len() == 32);
    assert forall|i: int| 0 <= i < 32 implies c[i] == h[i] by { assert(c.subrange(0, 32)[i] == c[i]); }
    assert(c.subrange(0, 4) =~= bytes32(len));
    assert(c.subrange(4, 6) =~= bytes16(ni));
    assert(c.subrange(6, 8) =~= bytes16(na));
    assert(c.subrange(8, 10) =~= bytes16(nk));
    assert(c.subrange(12, 16) =~= bytes32(limit));
    assert(c.subrange(16, 24) =~= bytes64(since));
    assert(c.subrange(24, 32) =~= bytes64(until));
}
// ---- arrays of fixed-width blocks (ids, authors: 32 bytes; kinds: 2 bytes) written one after another ----
pub open spec fn blocks32_ok(b: Seq<u8>, start: int, vals: Seq<Seq<u8>>, n: int) -> bool {
    forall|k: int| 0 <= k < n ==> #[trigger] b.subrange(start + 32 * k, start + 32 * k + 32) == vals[k]
}
pub open spec fn blocks2_ok(b: Seq<u8>, start: int, vals: Seq<Seq<u8>>, n: int) -> bool {
    forall|k: int| 0 <= k < n ==> #[trigger] b.subrange(start + 2 * k, start + 2 * k + 2) == vals[k]
}
// a buffer that agrees with b below the end of the first n blocks holds the same n blocks
pub proof fn lemma_blocks32_frame(b: Seq<u8>, b2: Seq<u8>, start: int, vals: Seq<Seq<u8>>, n: int)
    requires blocks32_ok(b, start, vals, n), 0 <= start, 0 <= n, start + 32 * n <= b.len(), start + 32 * n <= b2.len(),
        forall|i: int| start <= i < start + 32 * n ==> #[trigger] b2[i] == b[i],
    ensures blocks32_ok(b2, start, vals, n)
{
    assert forall|k: int| 0 <= k < n implies #[trigger] b2.subrange(start + 32 * k, start + 32 * k + 32) == vals[k] by {
        assert(b2.subrange(start + 32 * k, start + 32 * k + 32) =~= b.subrange(start + 32 * k, start + 32 * k + 32));
    }
}
pub proof fn lemma_blocks2_frame(b: Seq<u8>, b2: Seq<u8>, start: int, vals: Seq<Seq<u8>>, n: int)
    requires blocks2_ok(b, start, vals, n), 0 <= start, 0 <= n, start + 2 * n <= b.len(), start + 2 * n <= b2.len(),
        forall|i: int| start <= i < start + 2 * n ==> #[trigger] b2[i] == b[i],
    ensures blocks2_ok(b2, start, vals, n)
{
    assert forall|k: int| 0 <= k < n implies #[trigger] b2.subrange(start + 2 * k, start + 2 * k + 2) == vals[k] by {
        assert(b2.subrange(start + 2 * k, start + 2 * k + 2) =~= b.subrange(start + 2 * k, start + 2 * k + 2));
    }
}
