// ---- spec/filter_build.rs: from the writer-side facts of parse_json_filter to wf_filter ----
pub proof fn lemma_wf_filter_from_layout(out: Seq<u8>, len: int, base: int, n: int)
    requires 36 <= len <= out.len(), len <= u32::MAX, u32_at(out, 0) == len,
        base == 32 + 32 * u16_at(out, 4) + 32 * u16_at(out, 6) + 2 * u16_at(out, 8),
        base + 4 + 2 * n <= len, 0 <= n, len - base <= 65535,
        u16_at(out, base) == len - base, u16_at(out, base + 2) == n,
        forall|j: int| 0 <= j < n ==> #[trigger] ftag_done(out, base, j, n, len),
    ensures wf_filter(out.subrange(0, len))
{
    let c = out.subrange(0, len);
    assert forall|i: int| 0 <= i && i + 2 <= len implies #[trigger] u16_at(c, i) == u16_at(out, i) by {
        assert(c.subrange(i, i + 2) =~= out.subrange(i, i + 2));
    }
    assert(c.subrange(0, 4) =~= out.subrange(0, 4));
    assert(f_tags_start(c) == base);
    let tl = len - base;
    let s = out.subrange(base, out.len() as int);
    let ft = f_tags(c);
    assert(ft =~= s.subrange(0, tl));
    assert forall|i: int| 0 <= i && i + 2 <= out.len() - base implies #[trigger] u16_at(s, i) == u16_at(out, base + i) by {
        assert(s.subrange(i, i + 2) =~= out.subrange(base + i, base + i + 2));
    }
    assert forall|j: int| 0 <= j < n implies #[trigger] tag_done(s, j, n, tl) by {
        assert(ftag_done(out, base, j, n, len));
        let off = base + u16_at(out, base + 4 + 2 * j);
        let ns = u16_at(out, off);
        lemma_so_mono(out, off + 2, 0, ns);
        lemma_so_shift(out, base, off - base + 2, ns);
        assert(t_off(s, j) == off - base);
        assert(u16_at(s, off - base) == ns);
    }
    lemma_wf_from_layout(s, n, tl);
    assert forall|t: int| 0 <= t < t_count(ft) implies #[trigger] t_nstr(ft, t) >= 1 by {
        assert(ftag_done(out, base, t, n, len));
        let off = base + u16_at(out, base + 4 + 2 * t);
        assert forall|i: int| 0 <= i && i + 2 <= tl implies #[trigger] u16_at(ft, i) == u16_at(s, i) by {
            assert(ft.subrange(i, i + 2) =~= s.subrange(i, i + 2));
        }
        assert(u16_at(ft, 2) == n);
        assert(t_off(ft, t) == off - base);
        lemma_so_mono(out, off + 2, 0, u16_at(out, off));
        assert(u16_at(ft, off - base) == u16_at(out, off));
    }
}

// A write confined to [a, e) that lies at or below the tag-section length slot leaves every finished
// tag, and every 16-bit field outside [a, e), as it was.
pub proof fn lemma_ftags_frame_below(b: Seq<u8>, b2: Seq<u8>, base: int, n: int, limit: int, a: int, e: int)
    requires b2.len() == b.len(), limit <= b.len(), 0 <= base, 0 <= n, 0 <= a <= e <= base + 2, e <= b.len(),
        forall|i: int| 0 <= i < b.len() && !(a <= i < e) ==> #[trigger] b2[i] == b[i],
        forall|j: int| 0 <= j < n ==> #[trigger] ftag_done(b, base, j, n, limit),
    ensures
        forall|j: int| 0 <= j < n ==> #[trigger] ftag_done(b2, base, j, n, limit),
        forall|p: int| e <= p && p + 2 <= b.len() ==> #[trigger] u16_at(b2, p) == u16_at(b, p),
        forall|p: int| 0 <= p && p + 2 <= a ==> #[trigger] u16_at(b2, p) == u16_at(b, p),
{
    assert forall|p: int| e <= p && p + 2 <= b.len() implies #[trigger] u16_at(b2, p) == u16_at(b, p) by {
        assert(b2.subrange(p, p + 2) =~= b.subrange(p, p + 2));
    }
    assert forall|p: int| 0 <= p && p + 2 <= a implies #[trigger] u16_at(b2, p) == u16_at(b, p) by {
        assert(b2.subrange(p, p + 2) =~= b.subrange(p, p + 2));
    }
    assert forall|j: int| 0 <= j < n implies #[trigger] ftag_done(b2, base, j, n, limit) by {
        assert(ftag_done(b, base, j, n, limit));
        let offj = base + u16_at(b, base + 4 + 2 * j);
        lemma_so_mono(b, offj + 2, 0, u16_at(b, offj));
        lemma_ftag_done_frame(b, b2, base, j, n, limit);
    }
}
