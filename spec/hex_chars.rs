// ---- spec/hex_chars.rs: nibble arithmetic and the contents of the repo's HEX_CHARS table (R13) ----
proof fn lemma_nibbles()
    ensures
        forall|b: u8| #![trigger (b & 0xF0u8) >> 4u8] ((b & 0xF0u8) >> 4u8) == b / 16 && ((b & 0xF0u8) >> 4u8) < 16,
        forall|b: u8| #![trigger b & 0x0Fu8] (b & 0x0Fu8) == b % 16 && (b & 0x0Fu8) < 16,
        forall|d: int| 0 <= d < 16 ==> #[trigger] HEX_CHARS@[d] == hex_digit_lc(d),
{
    assert forall|b: u8| #![trigger (b & 0xF0u8) >> 4u8] ((b & 0xF0u8) >> 4u8) == b / 16 && ((b & 0xF0u8) >> 4u8) < 16 by {
        assert(((b & 0xF0u8) >> 4u8) == b / 16 && ((b & 0xF0u8) >> 4u8) < 16) by (bit_vector);
    }
    assert forall|b: u8| #![trigger b & 0x0Fu8] (b & 0x0Fu8) == b % 16 && (b & 0x0Fu8) < 16 by {
        assert((b & 0x0Fu8) == b % 16 && (b & 0x0Fu8) < 16) by (bit_vector);
    }
}
