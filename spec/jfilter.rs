// ---- spec/jfilter.rs: a NIP-01 filter object read by an independent, order-insensitive JSON object scan ----
// Members are recognised by the raw bytes of their key: "ids", "authors", "kinds", "since", "until", "limit", and
// "#L" for an ASCII letter L; any other member is skipped as `string : value`.  A repeated member (or tag letter) makes
// the text not a filter (None).  The record holds where each member's value starts (for arrays: just after the "[").
pub struct JF { pub ids: int, pub authors: int, pub kinds: int, pub since: int, pub until: int, pub limit: int, pub tags: Seq<int> }
pub open spec fn jf_empty() -> JF { JF { ids: -1, authors: -1, kinds: -1, since: -1, until: -1, limit: -1, tags: Seq::<int>::empty() } }
pub open spec fn fkey_ids() -> Seq<u8> { seq![0x69u8, 0x64u8, 0x73u8, 0x22u8] }   // ids"
pub open spec fn fkey_authors() -> Seq<u8> { seq![0x61u8, 0x75u8, 0x74u8, 0x68u8, 0x6fu8, 0x72u8, 0x73u8, 0x22u8] }   // authors"
pub open spec fn fkey_kinds() -> Seq<u8> { seq![0x6bu8, 0x69u8, 0x6eu8, 0x64u8, 0x73u8, 0x22u8] }   // kinds"
pub open spec fn fkey_since() -> Seq<u8> { seq![0x73u8, 0x69u8, 0x6eu8, 0x63u8, 0x65u8, 0x22u8] }   // since"
pub open spec fn fkey_until() -> Seq<u8> { seq![0x75u8, 0x6eu8, 0x74u8, 0x69u8, 0x6cu8, 0x22u8] }   // until"
pub open spec fn fkey_limit() -> Seq<u8> { seq![0x6cu8, 0x69u8, 0x6du8, 0x69u8, 0x74u8, 0x22u8] }   // limit"
pub open spec fn is_letter(c: u8) -> bool { (65 <= c <= 90) || (97 <= c <= 122) }
pub open spec fn tag_key_at(s: Seq<u8>, p: int) -> bool { 0 <= p && p + 4 <= s.len() && s[p + 1] == 0x23 && is_letter(s[p + 2]) && s[p + 3] == 0x22 }
// which member the key whose opening quote is at p names: 0 ids, 1 authors, 2 kinds, 3 since, 4 until, 5 limit, 6 a tag, 7 other
#[verifier::opaque]
pub open spec fn fkey_which(s: Seq<u8>, p: int) -> int {
    if lit_at(s, p + 1, fkey_ids()) { 0 } else if lit_at(s, p + 1, fkey_authors()) { 1 } else if lit_at(s, p + 1, fkey_kinds()) { 2 }
    else if lit_at(s, p + 1, fkey_since()) { 3 } else if lit_at(s, p + 1, fkey_until()) { 4 } else if lit_at(s, p + 1, fkey_limit()) { 5 }
    else if tag_key_at(s, p) { 6 } else { 7 }
}
pub open spec fn fkey_len(k: int) -> int { if k == 0 { 4 } else if k == 1 { 8 } else if k == 2 { 6 } else if k == 3 { 6 } else if k == 4 { 6 } else if k == 5 { 6 } else { 3 } }
pub open spec fn hexstr_at(s: Seq<u8>, p: int) -> bool {
    0 <= p && p + 66 <= s.len() && s[p] == 0x22 && s[p + 65] == 0x22 && is_hex_str(s.subrange(p + 1, p + 65))
}
// an array of 64-hex-digit strings: cursor at an element (or, if none has been read yet, possibly at "]"):
// (offset just past "]", offsets of the elements' opening quotes)
pub open spec fn jhexarr(s: Seq<u8>, p: int, first: bool) -> Option<(int, Seq<int>)>
    decreases s.len() - p
{
    if p < 0 || p >= s.len() { None }
    else if first && s[p] == 0x5D { Some((p + 1, Seq::<int>::empty())) }
    else if hexstr_at(s, p) {
        let e2 = ws_end(s, p + 66);
        if e2 < 0 || e2 >= s.len() { None }
        else if s[e2] == 0x2C {
            let p2 = ws_end(s, e2 + 1);
            if p2 <= p || p2 > s.len() { None } else { match jhexarr(s, p2, false) { Some((f, ps)) => Some((f, seq![p] + ps)), None => None } }
        } else if s[e2] == 0x5D { Some((e2 + 1, seq![p])) }
        else { None }
    } else { None }
}
pub open spec fn kind_at(s: Seq<u8>, p: int) -> bool { 0 <= p && digits_end(s, p) > p && digits_val(s, p, digits_end(s, p)) <= 65535 }
// an array of kind numbers (0..65535)
pub open spec fn jnumarr(s: Seq<u8>, p: int, first: bool) -> Option<(int, Seq<int>)>
    decreases s.len() - p
{
    if p < 0 || p >= s.len() { None }
    else if first && s[p] == 0x5D { Some((p + 1, Seq::<int>::empty())) }
    else if kind_at(s, p) {
        let e2 = ws_end(s, digits_end(s, p));
        if e2 < 0 || e2 >= s.len() { None }
        else if s[e2] == 0x2C {
            let p2 = ws_end(s, e2 + 1);
            if p2 <= p || p2 > s.len() { None } else { match jnumarr(s, p2, false) { Some((f, ps)) => Some((f, seq![p] + ps)), None => None } }
        } else if s[e2] == 0x5D { Some((e2 + 1, seq![p])) }
        else { None }
    } else { None }
}
pub open spec fn int_at(s: Seq<u8>, p: int) -> bool { 0 <= p && digits_end(s, p) > p && digits_val(s, p, digits_end(s, p)) <= u64::MAX }
pub open spec fn jf_get(a: JF, k: int) -> int {
    if k == 0 { a.ids } else if k == 1 { a.authors } else if k == 2 { a.kinds } else if k == 3 { a.since } else if k == 4 { a.until } else { a.limit }
}
pub open spec fn jf_set(a: JF, k: int, v: int) -> JF {
    if k == 0 { JF { ids: v, ..a } } else if k == 1 { JF { authors: v, ..a } } else if k == 2 { JF { kinds: v, ..a } }
    else if k == 3 { JF { since: v, ..a } } else if k == 4 { JF { until: v, ..a } } else { JF { limit: v, ..a } }
}
// the letter of a tag member already in the record
pub open spec fn has_letter(s: Seq<u8>, tags: Seq<int>, l: u8) -> bool { exists|i: int| 0 <= i < tags.len() && #[trigger] s[tags[i]] == l }
// one member at p: (offset just past its value, record afterwards)
#[verifier::opaque]
pub open spec fn jf_member(s: Seq<u8>, p: int, acc: JF) -> Option<(int, JF)> {
    let k = fkey_which(s, p);
    if k == 7 { match jmember(s, p) { Some(e) => Some((e, acc)), None => None } }
    else {
        let c = ws_end(s, p + 1 + fkey_len(k));
        if c < 0 || c >= s.len() || s[c] != 0x3A { None }
        else {
            let v = ws_end(s, c + 1);
            if k == 6 {
                // "#L" : [ strings ]
                if has_letter(s, acc.tags, s[p + 2]) || v < 0 || v >= s.len() || s[v] != 0x5B { None }
                else { match jtag(s, ws_end(s, v + 1)) { Some((e, t)) => Some((e, JF { tags: acc.tags.push(p + 2), ..acc })), None => None } }
            } else if jf_get(acc, k) >= 0 { None }
            else if k <= 2 {
                if v < 0 || v >= s.len() || s[v] != 0x5B { None }
                else {
                    let r = if k == 2 { jnumarr(s, ws_end(s, v + 1), true) } else { jhexarr(s, ws_end(s, v + 1), true) };
                    match r { Some((e, ps)) => Some((e, jf_set(acc, k, v + 1))), None => None }
                }
            } else {
                if int_at(s, v) { Some((digits_end(s, v), jf_set(acc, k, v))) } else { None }
            }
        }
    }
}
// the members from the one at p to the closing brace
#[verifier::opaque]
pub open spec fn jf_scan(s: Seq<u8>, p: int, acc: JF) -> Option<(int, JF)>
    decreases s.len() - p
{
    if p < 0 || p >= s.len() || s[p] != 0x22 { None }
    else {
        match jf_member(s, p, acc) {
            None => None,
            Some((e, acc2)) => {
                let e2 = ws_end(s, e);
                if e2 < 0 || e2 >= s.len() { None }
                else if s[e2] == 0x2C { let p2 = ws_end(s, e2 + 1); if p2 <= p || p2 > s.len() { None } else { jf_scan(s, p2, acc2) } }
                else if s[e2] == 0x7D { Some((e2 + 1, acc2)) }
                else { None }
            }
        }
    }
}
// the filter object at the start of the text
pub open spec fn jfilter(s: Seq<u8>) -> Option<(int, JF)> {
    let a = ws_end(s, 0);
    if a < 0 || a >= s.len() || s[a] != 0x7B { None }
    else {
        let p = ws_end(s, a + 1);
        if 0 <= p < s.len() && s[p] == 0x7D { Some((p + 1, jf_empty())) } else { jf_scan(s, p, jf_empty()) }
    }
}
// ---- the values an independent parser extracts ----
pub open spec fn jf_ids(s: Seq<u8>, r: JF) -> Seq<int> { if r.ids < 0 { Seq::<int>::empty() } else { jhexarr(s, ws_end(s, r.ids), true)->Some_0.1 } }
pub open spec fn jf_authors(s: Seq<u8>, r: JF) -> Seq<int> { if r.authors < 0 { Seq::<int>::empty() } else { jhexarr(s, ws_end(s, r.authors), true)->Some_0.1 } }
pub open spec fn jf_kinds(s: Seq<u8>, r: JF) -> Seq<int> { if r.kinds < 0 { Seq::<int>::empty() } else { jnumarr(s, ws_end(s, r.kinds), true)->Some_0.1 } }
pub open spec fn jf_hex(s: Seq<u8>, p: int) -> Seq<u8> { hex_decode(s.subrange(p + 1, p + 65)) }
pub open spec fn jf_num(s: Seq<u8>, p: int) -> nat { digits_val(s, p, digits_end(s, p)) }
pub open spec fn jf_since(s: Seq<u8>, r: JF) -> nat { if r.since < 0 { 0 } else { jf_num(s, r.since) } }
pub open spec fn jf_until(s: Seq<u8>, r: JF) -> nat { if r.until < 0 { u64::MAX as nat } else { jf_num(s, r.until) } }
// "limit" larger than 2^32-1 means no limit, as does its absence
pub open spec fn jf_limit(s: Seq<u8>, r: JF) -> nat { if r.limit < 0 || jf_num(s, r.limit) > u32::MAX { u32::MAX as nat } else { jf_num(s, r.limit) } }
// tag constraint t: the letter, then the listed values
pub open spec fn jf_tag(s: Seq<u8>, lp: int) -> Seq<Seq<u8>> {
    // lp: offset of the letter; the key is "#L", then ws : ws [ ws strings ]
    let v = ws_end(s, ws_end(s, lp + 2) + 1);
    seq![seq![s[lp]]] + jtag(s, ws_end(s, v + 1))->Some_0.1
}
pub open spec fn jf_tags(s: Seq<u8>, r: JF) -> TagsView { Seq::new(r.tags.len(), |t: int| jf_tag(s, r.tags[t])) }
// ---- lemmas ----
pub proof fn lemma_jf_scan_step(s: Seq<u8>, p: int, acc: JF)
    requires jf_scan(s, p, acc) is Some
    ensures 0 <= p < s.len(), s[p] == 0x22, jf_member(s, p, acc) is Some,
        ({
            let e = jf_member(s, p, acc)->Some_0.0;
            let acc2 = jf_member(s, p, acc)->Some_0.1;
            let e2 = ws_end(s, e);
            let p2 = ws_end(s, e2 + 1);
            &&& 0 <= e2 < s.len()
            &&& (s[e2] == 0x2C || s[e2] == 0x7D)
            &&& s[e2] == 0x2C ==> jf_scan(s, p2, acc2) == jf_scan(s, p, acc)
            &&& s[e2] == 0x7D ==> jf_scan(s, p, acc) == Some((e2 + 1, acc2))
        }),
{
    reveal(jf_scan);
}
pub proof fn lemma_fkey_is(s: Seq<u8>, p: int, k: int)
    requires 0 <= k <= 5,
        k == 0 ==> lit_at(s, p + 1, fkey_ids()), k == 1 ==> lit_at(s, p + 1, fkey_authors()), k == 2 ==> lit_at(s, p + 1, fkey_kinds()),
        k == 3 ==> lit_at(s, p + 1, fkey_since()), k == 4 ==> lit_at(s, p + 1, fkey_until()), k == 5 ==> lit_at(s, p + 1, fkey_limit()),
    ensures fkey_which(s, p) == k
{
    reveal(fkey_which);
    if lit_at(s, p + 1, fkey_ids()) { assert(s.subrange(p + 1, p + 5)[0] == 0x69); }
    if lit_at(s, p + 1, fkey_authors()) { assert(s.subrange(p + 1, p + 9)[0] == 0x61); }
    if lit_at(s, p + 1, fkey_kinds()) { assert(s.subrange(p + 1, p + 7)[0] == 0x6b); }
    if lit_at(s, p + 1, fkey_since()) { assert(s.subrange(p + 1, p + 7)[0] == 0x73); }
    if lit_at(s, p + 1, fkey_until()) { assert(s.subrange(p + 1, p + 7)[0] == 0x75); }
    if lit_at(s, p + 1, fkey_limit()) { assert(s.subrange(p + 1, p + 7)[0] == 0x6c); }
}
pub proof fn lemma_fkey_tag(s: Seq<u8>, p: int)
    requires tag_key_at(s, p)
    ensures fkey_which(s, p) == 6
{
    reveal(fkey_which);
    if lit_at(s, p + 1, fkey_ids()) { assert(s.subrange(p + 1, p + 5)[0] == 0x69); }
    if lit_at(s, p + 1, fkey_authors()) { assert(s.subrange(p + 1, p + 9)[0] == 0x61); }
    if lit_at(s, p + 1, fkey_kinds()) { assert(s.subrange(p + 1, p + 7)[0] == 0x6b); }
    if lit_at(s, p + 1, fkey_since()) { assert(s.subrange(p + 1, p + 7)[0] == 0x73); }
    if lit_at(s, p + 1, fkey_until()) { assert(s.subrange(p + 1, p + 7)[0] == 0x75); }
    if lit_at(s, p + 1, fkey_limit()) { assert(s.subrange(p + 1, p + 7)[0] == 0x6c); }
}
pub proof fn lemma_fkey_other(s: Seq<u8>, p: int)
    requires !lit_at(s, p + 1, fkey_ids()), !lit_at(s, p + 1, fkey_authors()), !lit_at(s, p + 1, fkey_kinds()), !lit_at(s, p + 1, fkey_since()),
        !lit_at(s, p + 1, fkey_until()), !lit_at(s, p + 1, fkey_limit()), !tag_key_at(s, p),
    ensures fkey_which(s, p) == 7
{
    reveal(fkey_which);
}
pub proof fn lemma_jf_member_arr(s: Seq<u8>, p: int, acc: JF, k: int)
    requires jf_member(s, p, acc) is Some, fkey_which(s, p) == k, 0 <= k <= 2
    ensures ({
        let c = ws_end(s, p + 1 + fkey_len(k));
        let v = ws_end(s, c + 1);
        let r = if k == 2 { jnumarr(s, ws_end(s, v + 1), true) } else { jhexarr(s, ws_end(s, v + 1), true) };
        &&& jf_get(acc, k) < 0
        &&& 0 <= c < s.len() && s[c] == 0x3A
        &&& 0 <= v < s.len() && s[v] == 0x5B
        &&& r is Some
        &&& jf_member(s, p, acc) == Some((r->Some_0.0, jf_set(acc, k, v + 1)))
    })
{
    reveal(jf_member);
}
pub proof fn lemma_jf_member_int(s: Seq<u8>, p: int, acc: JF, k: int)
    requires jf_member(s, p, acc) is Some, fkey_which(s, p) == k, 3 <= k <= 5
    ensures ({
        let c = ws_end(s, p + 1 + fkey_len(k));
        let v = ws_end(s, c + 1);
        &&& jf_get(acc, k) < 0
        &&& 0 <= c < s.len() && s[c] == 0x3A
        &&& int_at(s, v)
        &&& jf_member(s, p, acc) == Some((digits_end(s, v), jf_set(acc, k, v)))
    })
{
    reveal(jf_member);
}
pub proof fn lemma_jf_member_tag(s: Seq<u8>, p: int, acc: JF)
    requires jf_member(s, p, acc) is Some, fkey_which(s, p) == 6
    ensures ({
        let c = ws_end(s, p + 4);
        let v = ws_end(s, c + 1);
        &&& !has_letter(s, acc.tags, s[p + 2])
        &&& 0 <= c < s.len() && s[c] == 0x3A
        &&& 0 <= v < s.len() && s[v] == 0x5B
        &&& jtag(s, ws_end(s, v + 1)) is Some
        &&& jf_member(s, p, acc) == Some((jtag(s, ws_end(s, v + 1))->Some_0.0, JF { tags: acc.tags.push(p + 2), ..acc }))
    })
{
    reveal(jf_member);
}
pub proof fn lemma_jf_member_other(s: Seq<u8>, p: int, acc: JF)
    requires jf_member(s, p, acc) is Some, fkey_which(s, p) == 7
    ensures jmember(s, p) is Some, jf_member(s, p, acc) == Some((jmember(s, p)->Some_0, acc))
{
    reveal(jf_member);
}
// inside an array of hex strings or of numbers there is no "]" before the closing one (the first pass finds the end of
// such an array by looking for the first "]")
pub proof fn lemma_hexarr_end(s: Seq<u8>, p: int, first: bool)
    requires jhexarr(s, p, first) is Some
    ensures p < jhexarr(s, p, first)->Some_0.0 <= s.len(), s[jhexarr(s, p, first)->Some_0.0 - 1] == 0x5D,
        forall|i: int| p <= i < jhexarr(s, p, first)->Some_0.0 - 1 ==> #[trigger] s[i] != 0x5D,
    decreases s.len() - p
{
    if first && s[p] == 0x5D { }
    else {
        let e2 = ws_end(s, p + 66);
        lemma_ws_end(s, p + 66);
        let hx = s.subrange(p + 1, p + 65);
        assert forall|i: int| p + 1 <= i < p + 65 implies #[trigger] s[i] != 0x5D by { assert(is_hex_char(hx[i - p - 1])); assert(hx[i - p - 1] == s[i]); }
        if s[e2] == 0x2C {
            let p2 = ws_end(s, e2 + 1);
            lemma_ws_end(s, e2 + 1);
            lemma_hexarr_end(s, p2, false);
        }
    }
}
pub proof fn lemma_digits_no_bracket(s: Seq<u8>, p: int)
    requires 0 <= p <= s.len()
    ensures p <= digits_end(s, p) <= s.len(), forall|i: int| p <= i < digits_end(s, p) ==> #[trigger] s[i] != 0x5D
    decreases s.len() - p
{
    if p < s.len() && is_digit(s[p]) { lemma_digits_no_bracket(s, p + 1); }
}
pub proof fn lemma_numarr_end(s: Seq<u8>, p: int, first: bool)
    requires jnumarr(s, p, first) is Some
    ensures p < jnumarr(s, p, first)->Some_0.0 <= s.len(), s[jnumarr(s, p, first)->Some_0.0 - 1] == 0x5D,
        forall|i: int| p <= i < jnumarr(s, p, first)->Some_0.0 - 1 ==> #[trigger] s[i] != 0x5D,
    decreases s.len() - p
{
    if first && s[p] == 0x5D { }
    else {
        lemma_digits_no_bracket(s, p);
        let e2 = ws_end(s, digits_end(s, p));
        lemma_ws_end(s, digits_end(s, p));
        if s[e2] == 0x2C {
            let p2 = ws_end(s, e2 + 1);
            lemma_ws_end(s, e2 + 1);
            lemma_numarr_end(s, p2, false);
        }
    }
}
// an array of strings is an array of values: the skipper of the first pass ends where the tag reader of the second ends
pub proof fn lemma_jtag_from_is_jarr(s: Seq<u8>, p: int)
    requires jtag_from(s, p) is Some, 0 <= p
    ensures jarr(s, p, false) == Some(jtag_from(s, p)->Some_0.0), jarr(s, p, true) == Some(jtag_from(s, p)->Some_0.0)
    decreases s.len() - p
{
    lemma_jtag_from_step(s, p);
    lemma_jstr_bounds(s, p);
    let e = jstr(s, p)->Some_0.0;
    let e2 = ws_end(s, e);
    lemma_ws_end(s, e);
    assert(0 <= p < s.len() && s[p] == 0x22);
    assert(jvalue(s, p) == Some(e));
    if s[e2] == 0x2C {
        let p2 = ws_end(s, e2 + 1);
        lemma_ws_end(s, e2 + 1);
        assert(jtag_from(s, p2) is Some);
        lemma_jtag_from_is_jarr(s, p2);
        assert(jarr(s, p, false) == jarr(s, p2, false));
    }
}
pub proof fn lemma_jtag_is_jarr(s: Seq<u8>, q: int)
    requires jtag(s, q) is Some, 0 <= q
    ensures jarr(s, q, true) == Some(jtag(s, q)->Some_0.0)
{
    if q < s.len() && s[q] == 0x5D { } else { lemma_jtag_from_is_jarr(s, q); }
}
// ---- proof vocabulary for parse_json_filter's first pass ----
// where eat_whitespace_and_commas lands from cursor c (before the first member: after whitespace; later: after
// whitespace, one comma, whitespace -- or at the closing brace)
pub open spec fn jf_land(s: Seq<u8>, c: int, started: bool) -> int {
    if !started { ws_end(s, c) } else { let e2 = ws_end(s, c); if 0 <= e2 < s.len() && s[e2] == 0x2C { ws_end(s, e2 + 1) } else { e2 } }
}
// the rest of the object from cursor c completes the record acc to (ee, rec)
#[verifier::opaque]
pub open spec fn jf_cont(s: Seq<u8>, c: int, acc: JF, started: bool, ee: int, rec: JF) -> bool {
    let t = jf_land(s, c, started);
    let e2 = ws_end(s, c);
    &&& 0 <= t < s.len()
    &&& started ==> (0 <= e2 < s.len() && (s[e2] == 0x2C || s[e2] == 0x7D))
    &&& if s[t] == 0x7D && (!started || t == e2) { ee == t + 1 && rec == acc } else { jf_scan(s, t, acc) == Some((ee, rec)) }
}
pub proof fn lemma_jf_cont_land(s: Seq<u8>, c: int, acc: JF, started: bool, ee: int, rec: JF, r: int)
    requires jf_cont(s, c, acc, started, ee, rec), 0 <= c <= r <= s.len(),
        forall|k: int| c <= k < r ==> is_wsc(#[trigger] s[k]), r < s.len() ==> !is_wsc(s[r]),
    ensures r == jf_land(s, c, started)
{
    reveal(jf_cont);
    let t = jf_land(s, c, started);
    lemma_ws_end(s, c);
    let e2 = ws_end(s, c);
    if started && s[e2] == 0x2C { lemma_ws_end(s, e2 + 1); }
    if !(s[t] == 0x7D) { reveal(jf_scan); }
    lemma_wsc_unique(s, c, r, t);
}
// after a member has been read to its end e with record acc2, the rest continues from e
pub proof fn lemma_jf_cont_next(s: Seq<u8>, p: int, acc: JF, ee: int, rec: JF)
    requires jf_scan(s, p, acc) == Some((ee, rec))
    ensures jf_member(s, p, acc) is Some, 0 <= p < s.len(), s[p] == 0x22,
        jf_cont(s, jf_member(s, p, acc)->Some_0.0, jf_member(s, p, acc)->Some_0.1, true, ee, rec),
        p < jf_member(s, p, acc)->Some_0.0,
{
    reveal(jf_cont);
    lemma_jf_scan_step(s, p, acc);
    reveal(jf_scan);
    lemma_jf_member_end(s, p, acc);
}
pub proof fn lemma_jf_member_end(s: Seq<u8>, p: int, acc: JF)
    requires jf_member(s, p, acc) is Some, 0 <= p < s.len(), s[p] == 0x22
    ensures p < jf_member(s, p, acc)->Some_0.0 <= s.len()
{
    reveal(jf_member);
    let k = fkey_which(s, p);
    if k == 7 { lemma_jmember_bounds(s, p); }
    else {
        let c = ws_end(s, p + 1 + fkey_len(k));
        lemma_ws_end(s, p + 1 + fkey_len(k));
        reveal(fkey_which);
        let v = ws_end(s, c + 1);
        lemma_ws_end(s, c + 1);
        if k == 6 { lemma_ws_end(s, v + 1); lemma_jtag_bounds(s, ws_end(s, v + 1)); }
        else if k == 2 { lemma_ws_end(s, v + 1); lemma_numarr_end(s, ws_end(s, v + 1), true); }
        else if k <= 1 { lemma_ws_end(s, v + 1); lemma_hexarr_end(s, ws_end(s, v + 1), true); }
        else { lemma_digits_no_bracket(s, v); }
    }
}
pub proof fn lemma_jtag_bounds(s: Seq<u8>, q: int)
    requires jtag(s, q) is Some, 0 <= q
    ensures q < jtag(s, q)->Some_0.0 <= s.len()
{
    lemma_jtag_is_jarr(s, q);
    lemma_jarr_bounds(s, q, true);
}
// the fixed header fields hold what the members read so far say (defaults for the members not seen)
#[verifier::opaque]
pub open spec fn jf_hdr_ok(s: Seq<u8>, o: Seq<u8>, acc: JF) -> bool {
    u64_at(o, 16) == jf_since(s, acc) && u64_at(o, 24) == jf_until(s, acc) && u32_at(o, 12) == jf_limit(s, acc)
}
pub open spec fn opt_pos(o: Option<usize>) -> int { match o { Some(x) => x as int, None => -1 } }
// ---- second pass: arrays of ids / authors (k = 0) and kinds (k = 1) re-read from the recorded start ----
pub open spec fn jarrk(s: Seq<u8>, p: int, first: bool, k: int) -> Option<(int, Seq<int>)> { if k == 1 { jnumarr(s, p, first) } else { jhexarr(s, p, first) } }
pub open spec fn elem_end(s: Seq<u8>, t: int, k: int) -> int { if k == 1 { digits_end(s, t) } else { t + 66 } }
pub open spec fn elem_ok(s: Seq<u8>, t: int, k: int) -> bool { if k == 1 { kind_at(s, t) } else { hexstr_at(s, t) } }
// the rest of the array from cursor c, n elements already read, completes (ff, ps)
#[verifier::opaque]
pub open spec fn arr_cont(s: Seq<u8>, c: int, started: bool, k: int, ff: int, ps: Seq<int>, n: int) -> bool {
    let t = jf_land(s, c, started);
    let e2 = ws_end(s, c);
    &&& 0 <= t < s.len() && 0 <= n <= ps.len()
    &&& started ==> (0 <= e2 < s.len() && (s[e2] == 0x2C || s[e2] == 0x5D))
    &&& if s[t] == 0x5D && (!started || t == e2) { n == ps.len() && ff == t + 1 } else { jarrk(s, t, !started, k) == Some((ff, ps.skip(n))) }
}
pub proof fn lemma_arr_land(s: Seq<u8>, c: int, started: bool, k: int, ff: int, ps: Seq<int>, n: int, r: int)
    requires arr_cont(s, c, started, k, ff, ps, n), 0 <= c <= r <= s.len(),
        forall|i: int| c <= i < r ==> is_wsc(#[trigger] s[i]), r < s.len() ==> !is_wsc(s[r]),
    ensures r == jf_land(s, c, started)
{
    reveal(arr_cont);
    let t = jf_land(s, c, started);
    lemma_ws_end(s, c);
    let e2 = ws_end(s, c);
    if started && s[e2] == 0x2C { lemma_ws_end(s, e2 + 1); }
    lemma_wsc_unique(s, c, r, t);
}
pub proof fn lemma_arr_start(s: Seq<u8>, a: int, k: int)
    requires 0 <= a, jarrk(s, ws_end(s, a), true, k) is Some
    ensures arr_cont(s, a, false, k, jarrk(s, ws_end(s, a), true, k)->Some_0.0, jarrk(s, ws_end(s, a), true, k)->Some_0.1, 0)
{
    reveal(arr_cont);
    let ps = jarrk(s, ws_end(s, a), true, k)->Some_0.1;
    assert(ps.skip(0) =~= ps);
}
// the cursor has landed on "]": every element has been read
pub proof fn lemma_arr_end(s: Seq<u8>, c: int, started: bool, k: int, ff: int, ps: Seq<int>, n: int)
    requires arr_cont(s, c, started, k, ff, ps, n), s[jf_land(s, c, started)] == 0x5D
    ensures n == ps.len()
{
    reveal(arr_cont);
    let t = jf_land(s, c, started);
    if !(!started || t == ws_end(s, c)) {
        // a "]" right after a comma: not an element
        assert(jarrk(s, t, false, k) is None);
    } else if !started {
        if jarrk(s, t, true, k) == Some((ff, ps.skip(n))) { assert(ps.skip(n).len() == 0); }
    }
}
// the cursor has landed on an element: it is element n, and after it the rest continues
pub proof fn lemma_arr_next(s: Seq<u8>, c: int, started: bool, k: int, ff: int, ps: Seq<int>, n: int)
    requires arr_cont(s, c, started, k, ff, ps, n), s[jf_land(s, c, started)] != 0x5D
    ensures elem_ok(s, jf_land(s, c, started), k), n < ps.len(), ps[n] == jf_land(s, c, started),
        arr_cont(s, elem_end(s, jf_land(s, c, started), k), true, k, ff, ps, n + 1),
{
    reveal(arr_cont);
    let t = jf_land(s, c, started);
    let rest = ps.skip(n);
    assert(jarrk(s, t, !started, k) == Some((ff, rest)));
    let e = elem_end(s, t, k);
    let e2 = ws_end(s, e);
    if k == 1 { lemma_digits_no_bracket(s, t); }
    lemma_ws_end(s, e);
    if s[e2] == 0x2C {
        let p2 = ws_end(s, e2 + 1);
        lemma_ws_end(s, e2 + 1);
        let r2 = jarrk(s, p2, false, k)->Some_0.1;
        assert(rest =~= seq![t] + r2);
        assert(rest[0] == t);
        assert(rest.skip(1) =~= r2);
        assert(ps.skip(n + 1) =~= rest.skip(1));
    } else {
        assert(rest =~= seq![t]);
        assert(rest[0] == t);
    }
}
pub open spec fn hex_views(s: Seq<u8>, ps: Seq<int>) -> Seq<Seq<u8>> { Seq::new(ps.len(), |i: int| jf_hex(s, ps[i])) }
pub open spec fn num_views(s: Seq<u8>, ps: Seq<int>) -> Seq<Seq<u8>> { Seq::new(ps.len(), |i: int| bytes16(jf_num(s, ps[i]) as u16)) }
// ---- what every record produced by the scan satisfies (used by the second pass, which re-reads from the recorded starts) ----
pub open spec fn tag_rec_ok(s: Seq<u8>, lp: int) -> bool {
    let c = ws_end(s, lp + 2);
    let v = ws_end(s, c + 1);
    &&& 2 <= lp && lp + 2 <= s.len() && is_letter(s[lp]) && s[lp + 1] == 0x22
    &&& 0 <= c < s.len() && s[c] == 0x3A
    &&& 0 <= v < s.len() && s[v] == 0x5B
    &&& jtag(s, ws_end(s, v + 1)) is Some
}
#[verifier::opaque]
pub open spec fn jf_rec_ok(s: Seq<u8>, a: JF) -> bool {
    &&& a.ids >= 0 ==> jhexarr(s, ws_end(s, a.ids), true) is Some
    &&& a.authors >= 0 ==> jhexarr(s, ws_end(s, a.authors), true) is Some
    &&& a.kinds >= 0 ==> jnumarr(s, ws_end(s, a.kinds), true) is Some
    &&& a.since >= 0 ==> int_at(s, a.since)
    &&& a.until >= 0 ==> int_at(s, a.until)
    &&& a.limit >= 0 ==> int_at(s, a.limit)
    &&& a.ids >= -1 && a.authors >= -1 && a.kinds >= -1 && a.since >= -1 && a.until >= -1 && a.limit >= -1
    &&& forall|i: int| 0 <= i < a.tags.len() ==> #[trigger] tag_rec_ok(s, a.tags[i])
}
pub proof fn lemma_jf_member_rec_ok(s: Seq<u8>, p: int, acc: JF)
    requires jf_member(s, p, acc) is Some, jf_rec_ok(s, acc), 0 <= p < s.len(), s[p] == 0x22
    ensures jf_rec_ok(s, jf_member(s, p, acc)->Some_0.1)
{
    reveal(jf_rec_ok);
    reveal(jf_member);
    reveal(fkey_which);
    let k = fkey_which(s, p);
    let acc2 = jf_member(s, p, acc)->Some_0.1;
    if k == 7 { }
    else {
        let c = ws_end(s, p + 1 + fkey_len(k));
        lemma_ws_end(s, p + 1 + fkey_len(k));
        let v = ws_end(s, c + 1);
        lemma_ws_end(s, c + 1);
        if k == 6 {
            assert forall|i: int| 0 <= i < acc2.tags.len() implies #[trigger] tag_rec_ok(s, acc2.tags[i]) by {
                if i < acc.tags.len() { assert(tag_rec_ok(s, acc.tags[i])); assert(acc2.tags[i] == acc.tags[i]); }
                else { assert(acc2.tags[i] == p + 2); }
            }
        }
    }
}
pub proof fn lemma_jf_scan_rec_ok(s: Seq<u8>, p: int, acc: JF)
    requires jf_scan(s, p, acc) is Some, jf_rec_ok(s, acc)
    ensures jf_rec_ok(s, jf_scan(s, p, acc)->Some_0.1)
    decreases s.len() - p
{
    reveal(jf_rec_ok);
    reveal(jf_scan);
    lemma_jf_member_rec_ok(s, p, acc);
    let e = jf_member(s, p, acc)->Some_0.0;
    let acc2 = jf_member(s, p, acc)->Some_0.1;
    let e2 = ws_end(s, e);
    if s[e2] == 0x2C { lemma_jf_scan_rec_ok(s, ws_end(s, e2 + 1), acc2); }
}
pub proof fn lemma_jfilter_rec_ok(s: Seq<u8>)
    requires jfilter(s) is Some
    ensures jf_rec_ok(s, jfilter(s)->Some_0.1)
{
    reveal(jf_rec_ok);
    let a = ws_end(s, 0);
    let p = ws_end(s, a + 1);
    if 0 <= p < s.len() && s[p] == 0x7D { } else { lemma_jf_scan_rec_ok(s, p, jf_empty()); }
}
// ---- opaque wrappers, so that the long body of parse_json_filter only moves predicates around ----
pub proof fn lemma_jf_cont_start(s: Seq<u8>, c: int)
    requires jfilter(s) is Some, c == ws_end(s, 0) + 1
    ensures jf_cont(s, c, jf_empty(), false, jfilter(s)->Some_0.0, jfilter(s)->Some_0.1)
{
    reveal(jf_cont);
    let t = ws_end(s, c);
    lemma_ws_end(s, 0);
    lemma_ws_end(s, c);
    if !(0 <= t < s.len() && s[t] == 0x7D) { lemma_jf_scan_step(s, t, jf_empty()); }
}
// the loop leaves at "}" exactly when the record is complete
pub proof fn lemma_jf_cont_end(s: Seq<u8>, c: int, acc: JF, started: bool, ee: int, rec: JF)
    requires jf_cont(s, c, acc, started, ee, rec), 0 <= jf_land(s, c, started) < s.len(), s[jf_land(s, c, started)] == 0x7D
    ensures ee == jf_land(s, c, started) + 1, rec == acc
{
    reveal(jf_cont);
    let t = jf_land(s, c, started);
    if !(!started || t == ws_end(s, c)) { lemma_jf_scan_step(s, t, acc); }
}
pub proof fn lemma_jf_cont_member(s: Seq<u8>, c: int, acc: JF, started: bool, ee: int, rec: JF)
    requires jf_cont(s, c, acc, started, ee, rec), 0 <= jf_land(s, c, started) < s.len(), s[jf_land(s, c, started)] != 0x7D
    ensures jf_scan(s, jf_land(s, c, started), acc) == Some((ee, rec))
{
    reveal(jf_cont);
}
pub proof fn lemma_rec_ok_fields(s: Seq<u8>, a: JF)
    requires jf_rec_ok(s, a)
    ensures a.ids >= 0 ==> jhexarr(s, ws_end(s, a.ids), true) is Some,
        a.authors >= 0 ==> jhexarr(s, ws_end(s, a.authors), true) is Some,
        a.kinds >= 0 ==> jnumarr(s, ws_end(s, a.kinds), true) is Some,
        a.ids >= -1 && a.authors >= -1 && a.kinds >= -1,
        forall|i: int| 0 <= i < a.tags.len() ==> #[trigger] tag_rec_ok(s, a.tags[i]),
{
    reveal(jf_rec_ok);
}
pub proof fn lemma_hdr_init(s: Seq<u8>, o: Seq<u8>)
    requires o.len() >= 32, u32_at(o, 12) == u32::MAX, u64_at(o, 16) == 0, u64_at(o, 24) == u64::MAX
    ensures jf_hdr_ok(s, o, jf_empty())
{ reveal(jf_hdr_ok); }
// one iteration of the first pass: o2 differs from o1 at most in the header field of the member just read (k), which now
// holds that member's value
pub proof fn lemma_hdr_step(s: Seq<u8>, o1: Seq<u8>, o2: Seq<u8>, a1: JF, a2: JF)
    requires jf_hdr_ok(s, o1, a1), o1.len() == o2.len(), o1.len() >= 32,
        a2.since == a1.since ==> o2.subrange(16, 24) == o1.subrange(16, 24),
        a2.until == a1.until ==> o2.subrange(24, 32) == o1.subrange(24, 32),
        a2.limit == a1.limit ==> o2.subrange(12, 16) == o1.subrange(12, 16),
        a2.since != a1.since ==> (a2.since >= 0 && u64_at(o2, 16) == jf_num(s, a2.since)),
        a2.until != a1.until ==> (a2.until >= 0 && u64_at(o2, 24) == jf_num(s, a2.until)),
        a2.limit != a1.limit ==> (a2.limit >= 0 && u32_at(o2, 12) == (if jf_num(s, a2.limit) > u32::MAX { u32::MAX as nat } else { jf_num(s, a2.limit) })),
    ensures jf_hdr_ok(s, o2, a2)
{ reveal(jf_hdr_ok); }
pub proof fn lemma_hdr_frame(s: Seq<u8>, o1: Seq<u8>, o2: Seq<u8>, a: JF)
    requires jf_hdr_ok(s, o1, a), o1.len() == o2.len(), o1.len() >= 32, forall|i: int| 12 <= i < 32 ==> #[trigger] o2[i] == o1[i]
    ensures jf_hdr_ok(s, o2, a)
{
    reveal(jf_hdr_ok);
    assert(o2.subrange(12, 16) =~= o1.subrange(12, 16));
    assert(o2.subrange(16, 24) =~= o1.subrange(16, 24));
    assert(o2.subrange(24, 32) =~= o1.subrange(24, 32));
}
// the id / author / kind arrays written so far
#[verifier::opaque]
pub open spec fn pblocks(o: Seq<u8>, start: int, vals: Seq<Seq<u8>>, n: int, w: int) -> bool {
    if w == 2 { blocks2_ok(o, start, vals, n) } else { blocks32_ok(o, start, vals, n) }
}
pub proof fn lemma_pblocks_empty(o: Seq<u8>, start: int, vals: Seq<Seq<u8>>, w: int)
    ensures pblocks(o, start, vals, 0, w)
{ reveal(pblocks); }
pub proof fn lemma_pblocks_step(o1: Seq<u8>, o2: Seq<u8>, start: int, vals: Seq<Seq<u8>>, n: int, w: int)
    requires pblocks(o1, start, vals, n, w), w == 2 || w == 32, 0 <= start, 0 <= n < vals.len(), o1.len() == o2.len(), start + w * (n + 1) <= o1.len(),
        forall|i: int| start <= i < start + w * n ==> #[trigger] o2[i] == o1[i],
        o2.subrange(start + w * n, start + w * n + w) == vals[n],
    ensures pblocks(o2, start, vals, n + 1, w)
{
    reveal(pblocks);
    if w == 2 {
        lemma_blocks2_frame(o1, o2, start, vals, n);
        assert forall|k: int| 0 <= k < n + 1 implies #[trigger] o2.subrange(start + 2 * k, start + 2 * k + 2) == vals[k] by { }
    } else {
        lemma_blocks32_frame(o1, o2, start, vals, n);
        assert forall|k: int| 0 <= k < n + 1 implies #[trigger] o2.subrange(start + 32 * k, start + 32 * k + 32) == vals[k] by { }
    }
}
pub proof fn lemma_pblocks_frame(o1: Seq<u8>, o2: Seq<u8>, start: int, vals: Seq<Seq<u8>>, n: int, w: int)
    requires pblocks(o1, start, vals, n, w), w == 2 || w == 32, 0 <= start, 0 <= n, o1.len() == o2.len(), start + w * n <= o1.len(),
        forall|i: int| start <= i < start + w * n ==> #[trigger] o2[i] == o1[i],
    ensures pblocks(o2, start, vals, n, w)
{
    reveal(pblocks);
    if w == 2 { lemma_blocks2_frame(o1, o2, start, vals, n); } else { lemma_blocks32_frame(o1, o2, start, vals, n); }
}
// ---- second pass, tags: the strings of one "#L": [ ... ] member re-read from the recorded letter position ----
#[verifier::opaque]
pub open spec fn tarr_cont(s: Seq<u8>, c: int, started: bool, ff: int, vs: Seq<Seq<u8>>, n: int) -> bool {
    let t = jf_land(s, c, started);
    let e2 = ws_end(s, c);
    &&& 0 <= t < s.len() && 0 <= n <= vs.len()
    &&& started ==> (0 <= e2 < s.len() && (s[e2] == 0x2C || s[e2] == 0x5D))
    &&& if s[t] == 0x5D && (!started || t == e2) { n == vs.len() && ff == t + 1 } else { jtag_from(s, t) == Some((ff, vs.skip(n))) }
}
pub proof fn lemma_tarr_land(s: Seq<u8>, c: int, started: bool, ff: int, vs: Seq<Seq<u8>>, n: int, r: int)
    requires tarr_cont(s, c, started, ff, vs, n), 0 <= c <= r <= s.len(),
        forall|i: int| c <= i < r ==> is_wsc(#[trigger] s[i]), r < s.len() ==> !is_wsc(s[r]),
    ensures r == jf_land(s, c, started)
{
    reveal(tarr_cont);
    let t = jf_land(s, c, started);
    lemma_ws_end(s, c);
    let e2 = ws_end(s, c);
    if started && s[e2] == 0x2C { lemma_ws_end(s, e2 + 1); }
    if jtag_from(s, t) is Some { lemma_jtag_from_step(s, t); }
    lemma_wsc_unique(s, c, r, t);
}
// cursor just after the "[" of a tag member whose strings are jtag(s, ws_end(s, a))
pub proof fn lemma_tarr_start(s: Seq<u8>, a: int)
    requires 0 <= a <= s.len(), jtag(s, ws_end(s, a)) is Some
    ensures tarr_cont(s, a, false, jtag(s, ws_end(s, a))->Some_0.0, jtag(s, ws_end(s, a))->Some_0.1, 0)
{
    reveal(tarr_cont);
    let q = ws_end(s, a);
    lemma_ws_end(s, a);
    let vs = jtag(s, q)->Some_0.1;
    assert(vs.skip(0) =~= vs);
    if !(q < s.len() && s[q] == 0x5D) { lemma_jtag_from_step(s, q); lemma_jstr_bounds(s, q); }
}
pub proof fn lemma_tarr_end(s: Seq<u8>, c: int, started: bool, ff: int, vs: Seq<Seq<u8>>, n: int)
    requires tarr_cont(s, c, started, ff, vs, n), s[jf_land(s, c, started)] == 0x5D
    ensures n == vs.len()
{
    reveal(tarr_cont);
    let t = jf_land(s, c, started);
    if !(!started || t == ws_end(s, c)) {
        if jtag_from(s, t) is Some { lemma_jtag_from_step(s, t); }
    }
}
pub proof fn lemma_tarr_next(s: Seq<u8>, c: int, started: bool, ff: int, vs: Seq<Seq<u8>>, n: int)
    requires tarr_cont(s, c, started, ff, vs, n), s[jf_land(s, c, started)] != 0x5D
    ensures jstr(s, jf_land(s, c, started)) is Some, n < vs.len(), vs[n] == jstr(s, jf_land(s, c, started))->Some_0.1,
        tarr_cont(s, jstr(s, jf_land(s, c, started))->Some_0.0, true, ff, vs, n + 1),
{
    reveal(tarr_cont);
    let t = jf_land(s, c, started);
    let rest = vs.skip(n);
    lemma_jtag_from_step(s, t);
    lemma_jstr_bounds(s, t);
    let e = jstr(s, t)->Some_0.0;
    let v0 = jstr(s, t)->Some_0.1;
    let e2 = ws_end(s, e);
    lemma_ws_end(s, e);
    if s[e2] == 0x2C {
        let p2 = ws_end(s, e2 + 1);
        lemma_ws_end(s, e2 + 1);
        let r2 = jtag_from(s, p2)->Some_0.1;
        assert(rest =~= seq![v0] + r2);
        assert(rest[0] == v0);
        assert(rest.skip(1) =~= r2);
        assert(vs.skip(n + 1) =~= rest.skip(1));
        lemma_jtag_from_step(s, p2);
    } else {
        assert(rest =~= seq![v0]);
        assert(rest[0] == v0);
    }
}
// tag j of the section at `base` is complete and holds exactly the strings of `tag`
pub open spec fn ftag_holds(out: Seq<u8>, base: int, j: int, n: int, limit: int, tag: Seq<Seq<u8>>) -> bool {
    let off = base + u16_at(out, base + 4 + 2 * j);
    &&& ftag_done(out, base, j, n, limit)
    &&& u16_at(out, off) == tag.len()
    &&& forall|k: int| 0 <= k < tag.len() ==> #[trigger] str_at(out, off + 2, k) == tag[k]
}
pub proof fn lemma_ftag_holds_frame(b: Seq<u8>, b2: Seq<u8>, base: int, j: int, n: int, limit: int, tag: Seq<Seq<u8>>)
    requires ftag_holds(b, base, j, n, limit, tag), limit <= b.len(), b2.len() == b.len(), 0 <= j < n, 0 <= base,
        forall|i: int| ((base + 4 + 2 * j <= i < base + 4 + 2 * j + 2)
            || (base + u16_at(b, base + 4 + 2 * j) <= i < so(b, base + u16_at(b, base + 4 + 2 * j) + 2, u16_at(b, base + u16_at(b, base + 4 + 2 * j))))) ==> #[trigger] b2[i] == b[i],
    ensures ftag_holds(b2, base, j, n, limit, tag)
{
    lemma_ftag_done_frame(b, b2, base, j, n, limit);
    let slot = base + 4 + 2 * j;
    assert(b2.subrange(slot, slot + 2) =~= b.subrange(slot, slot + 2));
    let off = base + u16_at(b, slot);
    let ns = u16_at(b, off);
    lemma_so_mono(b, off + 2, 0, ns);
    assert(b2.subrange(off, off + 2) =~= b.subrange(off, off + 2));
    lemma_str_at_frame(b, b2, off + 2, ns);
    assert forall|k: int| 0 <= k < tag.len() implies #[trigger] str_at(b2, off + 2, k) == tag[k] by {
        assert(str_at(b, off + 2, k) == tag[k]);
    }
}
// ---- final assembly: from what the passes established about the buffer to the accessor views of the finished filter ----
// a write confined to [a, e) at or below the tag-section length slot leaves every finished tag and its strings as they were
pub proof fn lemma_ftags_holds_below(s: Seq<u8>, r: JF, b: Seq<u8>, b2: Seq<u8>, base: int, n: int, limit: int, a: int, e: int)
    requires b2.len() == b.len(), limit <= b.len(), 0 <= base, 0 <= n, 0 <= a <= e <= base + 2, e <= b.len(), n == r.tags.len(),
        forall|i: int| 0 <= i < b.len() && !(a <= i < e) ==> #[trigger] b2[i] == b[i],
        forall|j: int| 0 <= j < n ==> #[trigger] ftag_holds(b, base, j, n, limit, jf_tag(s, r.tags[j])),
    ensures forall|j: int| 0 <= j < n ==> #[trigger] ftag_holds(b2, base, j, n, limit, jf_tag(s, r.tags[j])),
{
    assert forall|j: int| 0 <= j < n implies #[trigger] ftag_holds(b2, base, j, n, limit, jf_tag(s, r.tags[j])) by {
        assert(ftag_holds(b, base, j, n, limit, jf_tag(s, r.tags[j])));
        let offj = base + u16_at(b, base + 4 + 2 * j);
        lemma_so_mono(b, offj + 2, 0, u16_at(b, offj));
        lemma_ftag_holds_frame(b, b2, base, j, n, limit, jf_tag(s, r.tags[j]));
    }
}
// strings of a run seen through a suffix of the buffer
pub proof fn lemma_str_at_shift(out: Seq<u8>, base: int, start: int, n: int)
    requires 0 <= base, 0 <= start, 0 <= n, so(out, base + start, n) <= out.len()
    ensures forall|k: int| 0 <= k < n ==> #[trigger] str_at(out.subrange(base, out.len() as int), start, k) == str_at(out, base + start, k),
{
    let sfx = out.subrange(base, out.len() as int);
    assert forall|k: int| 0 <= k < n implies #[trigger] str_at(sfx, start, k) == str_at(out, base + start, k) by {
        lemma_so_mono(out, base + start, k + 1, n);
        lemma_so_mono(out, base + start, 0, k);
        lemma_so_shift(out, base, start, k);
        lemma_so_shift(out, base, start, k + 1);
        let p = so(sfx, start, k);
        assert(sfx.subrange(p, p + 2) =~= out.subrange(base + p, base + p + 2));
        assert(str_at(sfx, start, k) =~= str_at(out, base + start, k));
    }
}
// the tags section: view of the finished section == the strings of the "#L" members, in member order
pub proof fn lemma_ftags_view(s: Seq<u8>, r: JF, out: Seq<u8>, len: int, base: int, n: int)
    requires 36 <= len <= out.len(), 0 <= base, base + 4 + 2 * n <= len, 0 <= n, len - base <= 65535, n == r.tags.len(),
        u16_at(out, base) == len - base, u16_at(out, base + 2) == n,
        forall|j: int| 0 <= j < n ==> #[trigger] ftag_holds(out, base, j, n, len, jf_tag(s, r.tags[j])),
    ensures tags_view(out.subrange(base, len)) =~= jf_tags(s, r)
{
    let tl = len - base;
    let sfx = out.subrange(base, out.len() as int);
    let pv = jf_tags(s, r);
    assert forall|i: int| 0 <= i && i + 2 <= out.len() - base implies #[trigger] u16_at(sfx, i) == u16_at(out, base + i) by {
        assert(sfx.subrange(i, i + 2) =~= out.subrange(base + i, base + i + 2));
    }
    assert forall|j: int| 0 <= j < n implies #[trigger] tag_holds(sfx, j, n, tl, pv[j]) by {
        assert(ftag_holds(out, base, j, n, len, jf_tag(s, r.tags[j])));
        let off = base + u16_at(out, base + 4 + 2 * j);
        let ns = u16_at(out, off);
        lemma_so_mono(out, off + 2, 0, ns);
        lemma_so_shift(out, base, off - base + 2, ns);
        assert(t_off(sfx, j) == off - base);
        assert(u16_at(sfx, off - base) == ns);
        lemma_str_at_shift(out, base, off - base + 2, ns);
        assert forall|k: int| 0 <= k < pv[j].len() implies #[trigger] str_at(sfx, t_off(sfx, j) + 2, k) == pv[j][k] by {
            assert(str_at(out, off + 2, k) == pv[j][k]);
        }
    }
    lemma_view_from_layout(sfx, n, tl, pv);
    assert(sfx.subrange(0, tl) =~= out.subrange(base, len));
}
// ids / authors / kinds / header of the finished filter c = out[..len]
pub proof fn lemma_filter_views(s: Seq<u8>, r: JF, out: Seq<u8>, len: int)
    requires 36 <= len <= out.len(),
        jf_hdr_ok(s, out, r),
        u16_at(out, 4) == jf_ids(s, r).len(), u16_at(out, 6) == jf_authors(s, r).len(), u16_at(out, 8) == jf_kinds(s, r).len(),
        pblocks(out, 32, hex_views(s, jf_ids(s, r)), jf_ids(s, r).len() as int, 32),
        pblocks(out, 32 + 32 * (jf_ids(s, r).len() as int), hex_views(s, jf_authors(s, r)), jf_authors(s, r).len() as int, 32),
        pblocks(out, 32 + 32 * (jf_ids(s, r).len() as int) + 32 * (jf_authors(s, r).len() as int), num_views(s, jf_kinds(s, r)), jf_kinds(s, r).len() as int, 2),
        32 + 32 * jf_ids(s, r).len() + 32 * jf_authors(s, r).len() + 2 * jf_kinds(s, r).len() <= len,
        forall|i: int| 0 <= i < jf_kinds(s, r).len() ==> #[trigger] jf_num(s, jf_kinds(s, r)[i]) <= 65535,
    ensures ({
        let c = out.subrange(0, len);
        &&& f_nids(c) == jf_ids(s, r).len() && f_nauthors(c) == jf_authors(s, r).len() && f_nkinds(c) == jf_kinds(s, r).len()
        &&& forall|i: int| 0 <= i < jf_ids(s, r).len() ==> #[trigger] f_id(c, i) == jf_hex(s, jf_ids(s, r)[i])
        &&& forall|i: int| 0 <= i < jf_authors(s, r).len() ==> #[trigger] f_author(c, i) == jf_hex(s, jf_authors(s, r)[i])
        &&& forall|i: int| 0 <= i < jf_kinds(s, r).len() ==> #[trigger] f_kind(c, i) == jf_num(s, jf_kinds(s, r)[i])
        &&& f_since(c) == jf_since(s, r) && f_until(c) == jf_until(s, r) && f_limit(c) == jf_limit(s, r)
    })
{
    reveal(pblocks);
    reveal(jf_hdr_ok);
    broadcast use lemma_ne16_bytes16;
    let c = out.subrange(0, len);
    let ni = jf_ids(s, r).len() as int;
    let na = jf_authors(s, r).len() as int;
    let nk = jf_kinds(s, r).len() as int;
    assert(c.subrange(4, 6) =~= out.subrange(4, 6));
    assert(c.subrange(6, 8) =~= out.subrange(6, 8));
    assert(c.subrange(8, 10) =~= out.subrange(8, 10));
    assert(c.subrange(12, 16) =~= out.subrange(12, 16));
    assert(c.subrange(16, 24) =~= out.subrange(16, 24));
    assert(c.subrange(24, 32) =~= out.subrange(24, 32));
    assert forall|i: int| 0 <= i < ni implies #[trigger] f_id(c, i) == jf_hex(s, jf_ids(s, r)[i]) by {
        assert(c.subrange(32 + 32 * i, 64 + 32 * i) =~= out.subrange(32 + 32 * i, 32 + 32 * i + 32));
        assert(out.subrange(32 + 32 * i, 32 + 32 * i + 32) == hex_views(s, jf_ids(s, r))[i]);
    }
    assert forall|i: int| 0 <= i < na implies #[trigger] f_author(c, i) == jf_hex(s, jf_authors(s, r)[i]) by {
        assert(c.subrange(32 + 32 * ni + 32 * i, 32 + 32 * ni + 32 * i + 32) =~= out.subrange(32 + 32 * ni + 32 * i, 32 + 32 * ni + 32 * i + 32));
        assert(out.subrange(32 + 32 * ni + 32 * i, 32 + 32 * ni + 32 * i + 32) == hex_views(s, jf_authors(s, r))[i]);
    }
    assert forall|i: int| 0 <= i < nk implies #[trigger] f_kind(c, i) == jf_num(s, jf_kinds(s, r)[i]) by {
        let b0 = 32 + 32 * ni + 32 * na;
        assert(c.subrange(b0 + 2 * i, b0 + 2 * i + 2) =~= out.subrange(b0 + 2 * i, b0 + 2 * i + 2));
        assert(out.subrange(b0 + 2 * i, b0 + 2 * i + 2) == num_views(s, jf_kinds(s, r))[i]);
        assert(jf_num(s, jf_kinds(s, r)[i]) <= 65535);
    }
}
// every kind of a kinds array fits 16 bits (so writing it as u16 loses nothing)
pub proof fn lemma_numarr_elems(s: Seq<u8>, p: int, first: bool)
    requires jnumarr(s, p, first) is Some
    ensures forall|i: int| 0 <= i < jnumarr(s, p, first)->Some_0.1.len() ==> #[trigger] jf_num(s, jnumarr(s, p, first)->Some_0.1[i]) <= 65535
    decreases s.len() - p
{
    if first && s[p] == 0x5D { }
    else {
        let e2 = ws_end(s, digits_end(s, p));
        if s[e2] == 0x2C {
            let p2 = ws_end(s, e2 + 1);
            lemma_numarr_elems(s, p2, false);
            let r2 = jnumarr(s, p2, false)->Some_0.1;
            let ps = jnumarr(s, p, first)->Some_0.1;
            assert(ps =~= seq![p] + r2);
            assert forall|i: int| 0 <= i < ps.len() implies #[trigger] jf_num(s, ps[i]) <= 65535 by {
                if i > 0 { assert(ps[i] == r2[i - 1]); }
            }
        }
    }
}
// everything in front of the tags section: counts, header fields, the three arrays
#[verifier::opaque]
pub open spec fn fparts_ok(s: Seq<u8>, o: Seq<u8>, r: JF) -> bool {
    let ni = jf_ids(s, r).len() as int;
    let na = jf_authors(s, r).len() as int;
    let nk = jf_kinds(s, r).len() as int;
    &&& jf_hdr_ok(s, o, r)
    &&& u16_at(o, 4) == ni && u16_at(o, 6) == na && u16_at(o, 8) == nk
    &&& pblocks(o, 32, hex_views(s, jf_ids(s, r)), ni, 32)
    &&& pblocks(o, 32 + 32 * ni, hex_views(s, jf_authors(s, r)), na, 32)
    &&& pblocks(o, 32 + 32 * ni + 32 * na, num_views(s, jf_kinds(s, r)), nk, 2)
}
pub proof fn lemma_fparts_intro(s: Seq<u8>, o: Seq<u8>, r: JF)
    requires jf_hdr_ok(s, o, r),
        u16_at(o, 4) == jf_ids(s, r).len(), u16_at(o, 6) == jf_authors(s, r).len(), u16_at(o, 8) == jf_kinds(s, r).len(),
        pblocks(o, 32, hex_views(s, jf_ids(s, r)), jf_ids(s, r).len() as int, 32),
        pblocks(o, 32 + 32 * (jf_ids(s, r).len() as int), hex_views(s, jf_authors(s, r)), jf_authors(s, r).len() as int, 32),
        pblocks(o, 32 + 32 * (jf_ids(s, r).len() as int) + 32 * (jf_authors(s, r).len() as int), num_views(s, jf_kinds(s, r)), jf_kinds(s, r).len() as int, 2),
    ensures fparts_ok(s, o, r)
{ reveal(fparts_ok); }
pub proof fn lemma_fparts_frame(s: Seq<u8>, o1: Seq<u8>, o2: Seq<u8>, r: JF, wts: int)
    requires fparts_ok(s, o1, r), o1.len() == o2.len(), 32 <= wts <= o1.len(),
        wts == 32 + 32 * jf_ids(s, r).len() + 32 * jf_authors(s, r).len() + 2 * jf_kinds(s, r).len(),
        forall|i: int| 4 <= i < wts ==> #[trigger] o2[i] == o1[i],
    ensures fparts_ok(s, o2, r)
{
    reveal(fparts_ok);
    let ni = jf_ids(s, r).len() as int;
    let na = jf_authors(s, r).len() as int;
    let nk = jf_kinds(s, r).len() as int;
    lemma_hdr_frame(s, o1, o2, r);
    assert(o2.subrange(4, 6) =~= o1.subrange(4, 6));
    assert(o2.subrange(6, 8) =~= o1.subrange(6, 8));
    assert(o2.subrange(8, 10) =~= o1.subrange(8, 10));
    lemma_pblocks_frame(o1, o2, 32, hex_views(s, jf_ids(s, r)), ni, 32);
    lemma_pblocks_frame(o1, o2, 32 + 32 * ni, hex_views(s, jf_authors(s, r)), na, 32);
    lemma_pblocks_frame(o1, o2, 32 + 32 * ni + 32 * na, num_views(s, jf_kinds(s, r)), nk, 2);
}
// the finished filter c = out[..len]: every accessor view equals what the scan extracted
pub proof fn lemma_filter_final(s: Seq<u8>, r: JF, out: Seq<u8>, len: int, wts: int, n: int)
    requires 36 <= len <= out.len(), fparts_ok(s, out, r), jf_rec_ok(s, r), n == r.tags.len(),
        wts == 32 + 32 * jf_ids(s, r).len() + 32 * jf_authors(s, r).len() + 2 * jf_kinds(s, r).len(),
        wts + 4 + 2 * n <= len, len - wts <= 65535, u16_at(out, wts) == len - wts, u16_at(out, wts + 2) == n,
        forall|j: int| 0 <= j < n ==> #[trigger] ftag_holds(out, wts, j, n, len, jf_tag(s, r.tags[j])),
    ensures ({
        let c = out.subrange(0, len);
        &&& f_nids(c) == jf_ids(s, r).len() && f_nauthors(c) == jf_authors(s, r).len() && f_nkinds(c) == jf_kinds(s, r).len()
        &&& forall|i: int| 0 <= i < jf_ids(s, r).len() ==> #[trigger] f_id(c, i) == jf_hex(s, jf_ids(s, r)[i])
        &&& forall|i: int| 0 <= i < jf_authors(s, r).len() ==> #[trigger] f_author(c, i) == jf_hex(s, jf_authors(s, r)[i])
        &&& forall|i: int| 0 <= i < jf_kinds(s, r).len() ==> #[trigger] f_kind(c, i) == jf_num(s, jf_kinds(s, r)[i])
        &&& f_since(c) == jf_since(s, r) && f_until(c) == jf_until(s, r) && f_limit(c) == jf_limit(s, r)
        &&& tags_view(f_tags(c)) =~= jf_tags(s, r)
    })
{
    reveal(fparts_ok);
    lemma_rec_ok_fields(s, r);
    if r.kinds >= 0 { lemma_numarr_elems(s, ws_end(s, r.kinds), true); }
    lemma_filter_views(s, r, out, len);
    lemma_ftags_view(s, r, out, len, wts, n);
    let c = out.subrange(0, len);
    assert(f_tags_start(c) == wts);
    assert(c.subrange(wts, wts + 2) =~= out.subrange(wts, wts + 2));
    assert(f_tags(c) =~= out.subrange(wts, len));
}
// ---- the values of a parsed filter can be rendered again (C03: Filter::as_json is total on parsed filters) ----
pub open spec fn ftag_esc(out: Seq<u8>, base: int, j: int) -> bool {
    let off = base + u16_at(out, base + 4 + 2 * j);
    forall|k: int| 1 <= k < u16_at(out, off) ==> escapable(#[trigger] str_at(out, off + 2, k))
}
pub proof fn lemma_ftag_esc_frame(b: Seq<u8>, b2: Seq<u8>, base: int, j: int, n: int, limit: int)
    requires ftag_done(b, base, j, n, limit), ftag_esc(b, base, j), limit <= b.len(), b2.len() == b.len(), 0 <= j < n, 0 <= base,
        forall|i: int| ((base + 4 + 2 * j <= i < base + 4 + 2 * j + 2)
            || (base + u16_at(b, base + 4 + 2 * j) <= i < so(b, base + u16_at(b, base + 4 + 2 * j) + 2, u16_at(b, base + u16_at(b, base + 4 + 2 * j))))) ==> #[trigger] b2[i] == b[i],
    ensures ftag_esc(b2, base, j)
{
    lemma_ftag_done_frame(b, b2, base, j, n, limit);
    let slot = base + 4 + 2 * j;
    assert(b2.subrange(slot, slot + 2) =~= b.subrange(slot, slot + 2));
    let off = base + u16_at(b, slot);
    let ns = u16_at(b, off);
    lemma_so_mono(b, off + 2, 0, ns);
    assert(b2.subrange(off, off + 2) =~= b.subrange(off, off + 2));
    lemma_str_at_frame(b, b2, off + 2, ns);
    assert forall|k: int| 1 <= k < u16_at(b2, off) implies escapable(#[trigger] str_at(b2, off + 2, k)) by {
        assert(escapable(str_at(b, off + 2, k)));
    }
}
pub proof fn lemma_ftags_esc_below(b: Seq<u8>, b2: Seq<u8>, base: int, n: int, limit: int, a: int, e: int)
    requires b2.len() == b.len(), limit <= b.len(), 0 <= base, 0 <= n, 0 <= a <= e <= base + 2, e <= b.len(),
        forall|i: int| 0 <= i < b.len() && !(a <= i < e) ==> #[trigger] b2[i] == b[i],
        forall|j: int| 0 <= j < n ==> #[trigger] ftag_done(b, base, j, n, limit),
        forall|j: int| 0 <= j < n ==> #[trigger] ftag_esc(b, base, j),
    ensures forall|j: int| 0 <= j < n ==> #[trigger] ftag_esc(b2, base, j),
{
    assert forall|j: int| 0 <= j < n implies #[trigger] ftag_esc(b2, base, j) by {
        assert(ftag_done(b, base, j, n, limit) && ftag_esc(b, base, j));
        let offj = base + u16_at(b, base + 4 + 2 * j);
        lemma_so_mono(b, offj + 2, 0, u16_at(b, offj));
        lemma_ftag_esc_frame(b, b2, base, j, n, limit);
    }
}
pub proof fn lemma_filter_escapable(out: Seq<u8>, len: int, base: int, n: int)
    requires 36 <= len <= out.len(), len <= u32::MAX, u32_at(out, 0) == len,
        base == 32 + 32 * u16_at(out, 4) + 32 * u16_at(out, 6) + 2 * u16_at(out, 8),
        base + 4 + 2 * n <= len, 0 <= n, len - base <= 65535,
        u16_at(out, base) == len - base, u16_at(out, base + 2) == n,
        forall|j: int| 0 <= j < n ==> #[trigger] ftag_done(out, base, j, n, len),
        forall|j: int| 0 <= j < n ==> #[trigger] ftag_esc(out, base, j),
    ensures filter_escapable(out.subrange(0, len))
{
    lemma_wf_filter_from_layout(out, len, base, n);
    let c = out.subrange(0, len);
    let tl = len - base;
    let sfx = out.subrange(base, out.len() as int);
    assert forall|i: int| 0 <= i && i + 2 <= len implies #[trigger] u16_at(c, i) == u16_at(out, i) by {
        assert(c.subrange(i, i + 2) =~= out.subrange(i, i + 2));
    }
    assert(f_tags_start(c) == base);
    let ft = f_tags(c);
    assert(ft =~= sfx.subrange(0, tl));
    assert forall|i: int| 0 <= i && i + 2 <= out.len() - base implies #[trigger] u16_at(sfx, i) == u16_at(out, base + i) by {
        assert(sfx.subrange(i, i + 2) =~= out.subrange(base + i, base + i + 2));
    }
    assert forall|i: int| 0 <= i && i + 2 <= tl implies #[trigger] u16_at(ft, i) == u16_at(sfx, i) by {
        assert(ft.subrange(i, i + 2) =~= sfx.subrange(i, i + 2));
    }
    assert(t_count(ft) == n);
    assert forall|t: int, s: int| 0 <= t < t_count(ft) && 1 <= s < t_nstr(ft, t) implies escapable(#[trigger] s_bytes(ft, t, s)) by {
        assert(ftag_done(out, base, t, n, len) && ftag_esc(out, base, t));
        let off = base + u16_at(out, base + 4 + 2 * t);
        let ns = u16_at(out, off);
        lemma_so_mono(out, off + 2, 0, ns);
        lemma_so_shift(out, base, off - base + 2, ns);
        lemma_str_at_shift(out, base, off - base + 2, ns);
        assert(t_off(ft, t) == off - base);
        assert(u16_at(ft, off - base) == ns);
        // ft and sfx agree on the whole tag
        assert forall|i: int| off - base + 2 <= i < so(sfx, off - base + 2, ns) implies #[trigger] ft[i] == sfx[i] by { }
        lemma_str_at_frame(sfx, ft, off - base + 2, ns);
        lemma_so_is_s_off(ft, t, s);
        assert(s_bytes(ft, t, s) == str_at(ft, off - base + 2, s));
        assert(str_at(sfx, off - base + 2, s) == str_at(out, off + 2, s));
        assert(escapable(str_at(out, off + 2, s)));
    }
}
