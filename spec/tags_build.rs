// ---- spec/tags_build.rs: writer-side facts about the tags layout (used to prove that the JSON reader and from_parts
// produce well-formed Tags) ----
// offset of the length field of the s-th string of a run of strings starting at `start`
pub open spec fn so(b: Seq<u8>, start: int, s: int) -> int
    decreases s
{
    if s <= 0 { start } else { so(b, start, s - 1) + 2 + u16_at(b, so(b, start, s - 1)) }
}
pub proof fn lemma_so_is_s_off(b: Seq<u8>, t: int, s: int)
    ensures s_off(b, t, s) == so(b, t_off(b, t) + 2, s)
    decreases s
{
    if s > 0 { lemma_so_is_s_off(b, t, s - 1); }
}
pub proof fn lemma_so_mono(b: Seq<u8>, start: int, s: int, s2: int)
    requires 0 <= s <= s2
    ensures so(b, start, s) + 2 * (s2 - s) <= so(b, start, s2)
    decreases s2
{
    if s < s2 {
        lemma_so_mono(b, start, s, s2 - 1);
        lemma_u16_at_range(b, so(b, start, s2 - 1));
    }
}
// two buffers that agree on [start, so(b,start,n)) have the same string offsets up to n
pub proof fn lemma_so_frame(b: Seq<u8>, b2: Seq<u8>, start: int, n: int)
    requires 0 <= n, 0 <= start, so(b, start, n) <= b.len(), so(b, start, n) <= b2.len(),
        forall|i: int| start <= i < so(b, start, n) ==> #[trigger] b2[i] == b[i],
    ensures forall|s: int| 0 <= s <= n ==> #[trigger] so(b2, start, s) == so(b, start, s),
        forall|s: int| 0 <= s < n ==> u16_at(b2, #[trigger] so(b, start, s)) == u16_at(b, so(b, start, s)),
    decreases n
{
    if n > 0 {
        lemma_so_mono(b, start, n - 1, n);
        lemma_so_frame(b, b2, start, n - 1);
        let p = so(b, start, n - 1);
        lemma_so_mono(b, start, 0, n - 1);
        assert(b2.subrange(p, p + 2) =~= b.subrange(p, p + 2)) by {
            assert(b2[p] == b[p]);
            assert(b2[p + 1] == b[p + 1]);
        }
        assert forall|s: int| 0 <= s <= n implies #[trigger] so(b2, start, s) == so(b, start, s) by {
            if s == n { assert(so(b2, start, n - 1) == p); }
        }
        assert forall|s: int| 0 <= s < n implies u16_at(b2, #[trigger] so(b, start, s)) == u16_at(b, so(b, start, s)) by {
            if s == n - 1 { }
        }
    }
}
// end of the tag whose count field is at `off`
pub open spec fn tag_end_at(b: Seq<u8>, off: int) -> int { so(b, off + 2, u16_at(b, off)) }

// tag j of the buffer is complete: its offset slot points into the data area, its strings end at or before `limit`
pub open spec fn tag_done(b: Seq<u8>, j: int, n: int, limit: int) -> bool {
    4 + 2 * n <= t_off(b, j) && t_off(b, j) + 2 <= tag_end_at(b, t_off(b, j)) && tag_end_at(b, t_off(b, j)) <= limit
}
// a buffer whose header and tags 0..n are complete is a well-formed Tags value once cut at its length field
pub proof fn lemma_wf_from_layout(b: Seq<u8>, n: int, len: int)
    requires 4 <= len <= 65535, len <= b.len(), u16_at(b, 0) == len, u16_at(b, 2) == n, 0 <= n, 4 + 2 * n <= len,
        forall|j: int| 0 <= j < n ==> #[trigger] tag_done(b, j, n, len),
    ensures wf_tags(b.subrange(0, len))
{
    let c = b.subrange(0, len);
    assert forall|i: int| 0 <= i && i + 2 <= len implies #[trigger] u16_at(c, i) == u16_at(b, i) by {
        assert(c.subrange(i, i + 2) =~= b.subrange(i, i + 2));
    }
    assert(u16_at(c, 0) == len);
    assert(t_count(c) == n);
    assert forall|t: int| 0 <= t < t_count(c) implies #[trigger] wf_tag(c, t) by {
        assert(tag_done(b, t, n, len));
        assert(u16_at(c, 4 + 2 * t) == u16_at(b, 4 + 2 * t));
        let off = t_off(b, t);
        assert(t_off(c, t) == off);
        let ns = u16_at(b, off);
        lemma_so_mono(b, off + 2, 0, ns);
        assert(u16_at(c, off) == ns);
        // c and b agree on the whole tag
        assert forall|i: int| off + 2 <= i < so(b, off + 2, ns) implies #[trigger] c[i] == b[i] by { }
        lemma_so_frame(b, c, off + 2, ns);
        assert forall|s: int| 0 <= s < t_nstr(c, t) implies #[trigger] s_off(c, t, s) + 2 + s_len(c, t, s) <= c.len() by {
            lemma_so_is_s_off(c, t, s);
            lemma_so_is_s_off(c, t, s + 1);
            assert(so(c, off + 2, s) == so(b, off + 2, s));
            assert(so(c, off + 2, s + 1) == so(b, off + 2, s + 1));
            lemma_so_mono(b, off + 2, s + 1, ns);
        }
    }
}
// writes outside slot j and outside tag j's data leave tag j as it is
pub proof fn lemma_tag_done_frame(b: Seq<u8>, b2: Seq<u8>, j: int, n: int, limit: int)
    requires tag_done(b, j, n, limit), limit <= b.len(), b2.len() == b.len(), 0 <= j < n,
        forall|i: int| ((4 + 2 * j <= i < 4 + 2 * j + 2) || (t_off(b, j) <= i < tag_end_at(b, t_off(b, j)))) ==> #[trigger] b2[i] == b[i],
    ensures tag_done(b2, j, n, limit), t_off(b2, j) == t_off(b, j), tag_end_at(b2, t_off(b2, j)) == tag_end_at(b, t_off(b, j))
{
    assert(b2.subrange(4 + 2 * j, 4 + 2 * j + 2) =~= b.subrange(4 + 2 * j, 4 + 2 * j + 2));
    let off = t_off(b, j);
    let ns = u16_at(b, off);
    lemma_so_mono(b, off + 2, 0, ns);
    assert(b2.subrange(off, off + 2) =~= b.subrange(off, off + 2));
    lemma_so_frame(b, b2, off + 2, ns);
}
// ---- a tags section embedded at absolute offset `base` of a larger buffer (filters) ----
pub proof fn lemma_so_shift(out: Seq<u8>, base: int, start: int, n: int)
    requires 0 <= base, 0 <= start, 0 <= n, so(out, base + start, n) <= out.len()
    ensures so(out.subrange(base, out.len() as int), start, n) + base == so(out, base + start, n)
    decreases n
{
    if n > 0 {
        lemma_so_mono(out, base + start, n - 1, n);
        lemma_so_shift(out, base, start, n - 1);
        let s = out.subrange(base, out.len() as int);
        let p = so(s, start, n - 1);
        lemma_so_mono(out, base + start, 0, n - 1);
        assert(s.subrange(p, p + 2) =~= out.subrange(base + p, base + p + 2));
    }
}
// tag j of the section at `base` is complete (absolute coordinates), has a name, and ends at or before `limit`
pub open spec fn ftag_done(out: Seq<u8>, base: int, j: int, n: int, limit: int) -> bool {
    let off = base + u16_at(out, base + 4 + 2 * j);
    base + 4 + 2 * n <= off && u16_at(out, off) >= 1 && off + 2 <= so(out, off + 2, u16_at(out, off)) && so(out, off + 2, u16_at(out, off)) <= limit
}
pub proof fn lemma_ftag_done_frame(b: Seq<u8>, b2: Seq<u8>, base: int, j: int, n: int, limit: int)
    requires ftag_done(b, base, j, n, limit), limit <= b.len(), b2.len() == b.len(), 0 <= j < n, 0 <= base,
        forall|i: int| ((base + 4 + 2 * j <= i < base + 4 + 2 * j + 2)
            || (base + u16_at(b, base + 4 + 2 * j) <= i < so(b, base + u16_at(b, base + 4 + 2 * j) + 2, u16_at(b, base + u16_at(b, base + 4 + 2 * j))))) ==> #[trigger] b2[i] == b[i],
    ensures ftag_done(b2, base, j, n, limit)
{
    let slot = base + 4 + 2 * j;
    assert(b2.subrange(slot, slot + 2) =~= b.subrange(slot, slot + 2));
    let off = base + u16_at(b, slot);
    let ns = u16_at(b, off);
    lemma_so_mono(b, off + 2, 0, ns);
    assert(b2.subrange(off, off + 2) =~= b.subrange(off, off + 2));
    lemma_so_frame(b, b2, off + 2, ns);
}
