// ---- spec/json_out.rs: the JSON text of tags / events / filters (what the serializers must emit) ----
pub open spec fn q(s: Seq<u8>) -> Seq<u8> { seq![0x22u8] + escape(s) + seq![0x22u8] }     // "escaped"
// the first n strings of tag t, comma separated
pub open spec fn strs_json(b: Seq<u8>, t: int, n: int) -> Seq<u8>
    decreases n
{
    if n <= 0 { Seq::<u8>::empty() }
    else if n == 1 { q(s_bytes(b, t, 0)) }
    else { strs_json(b, t, n - 1) + seq![0x2cu8] + q(s_bytes(b, t, n - 1)) }
}
pub open spec fn tag_json(b: Seq<u8>, t: int) -> Seq<u8> { seq![0x5bu8] + strs_json(b, t, t_nstr(b, t)) + seq![0x5du8] }
// the first n tags, comma separated
pub open spec fn tags_upto_json(b: Seq<u8>, n: int) -> Seq<u8>
    decreases n
{
    if n <= 0 { Seq::<u8>::empty() }
    else if n == 1 { tag_json(b, 0) }
    else { tags_upto_json(b, n - 1) + seq![0x2cu8] + tag_json(b, n - 1) }
}
pub open spec fn tags_json(b: Seq<u8>) -> Seq<u8> { seq![0x5bu8] + tags_upto_json(b, t_count(b)) + seq![0x5du8] }
// every string of the tags can be rendered (complete UTF-8 sequences of renderable scalars)
pub open spec fn tags_escapable(b: Seq<u8>) -> bool {
    forall|t: int, s: int| 0 <= t < t_count(b) && 0 <= s < t_nstr(b, t) ==> escapable(#[trigger] s_bytes(b, t, s))
}
// ---- filter JSON ----
pub open spec fn hexq(b: Seq<u8>) -> Seq<u8> { seq![0x22u8] + hex_encode(b) + seq![0x22u8] }
pub open spec fn sep(nonempty: bool) -> Seq<u8> { if nonempty { seq![0x2cu8] } else { Seq::<u8>::empty() } }
pub open spec fn ids_list(f: Seq<u8>, n: int) -> Seq<u8>
    decreases n
{
    if n <= 0 { Seq::<u8>::empty() } else if n == 1 { hexq(f_id(f, 0)) } else { ids_list(f, n - 1) + seq![0x2cu8] + hexq(f_id(f, n - 1)) }
}
pub open spec fn authors_list(f: Seq<u8>, n: int) -> Seq<u8>
    decreases n
{
    if n <= 0 { Seq::<u8>::empty() } else if n == 1 { hexq(f_author(f, 0)) } else { authors_list(f, n - 1) + seq![0x2cu8] + hexq(f_author(f, n - 1)) }
}
pub open spec fn kinds_list(f: Seq<u8>, n: int) -> Seq<u8>
    decreases n
{
    if n <= 0 { Seq::<u8>::empty() } else if n == 1 { dec_digits(f_kind(f, 0) as nat) }
    else { kinds_list(f, n - 1) + seq![0x2cu8] + dec_digits(f_kind(f, n - 1) as nat) }
}
// values 1..n of tag constraint t
pub open spec fn vals_list(ft: Seq<u8>, t: int, n: int) -> Seq<u8>
    decreases n
{
    if n <= 1 { Seq::<u8>::empty() } else if n == 2 { q(s_bytes(ft, t, 1)) } else { vals_list(ft, t, n - 1) + seq![0x2cu8] + q(s_bytes(ft, t, n - 1)) }
}
pub open spec fn lit_ids() -> Seq<u8> { seq![0x22u8, 0x69u8, 0x64u8, 0x73u8, 0x22u8, 0x3au8, 0x5bu8] }                   // "ids":[
pub open spec fn lit_authors() -> Seq<u8> { seq![0x22u8, 0x61u8, 0x75u8, 0x74u8, 0x68u8, 0x6fu8, 0x72u8, 0x73u8, 0x22u8, 0x3au8, 0x5bu8] }  // "authors":[
pub open spec fn lit_kinds() -> Seq<u8> { seq![0x22u8, 0x6bu8, 0x69u8, 0x6eu8, 0x64u8, 0x73u8, 0x22u8, 0x3au8, 0x5bu8] }     // "kinds":[
pub open spec fn lit_limit() -> Seq<u8> { seq![0x22u8, 0x6cu8, 0x69u8, 0x6du8, 0x69u8, 0x74u8, 0x22u8, 0x3au8] }            // "limit":
pub open spec fn lit_since() -> Seq<u8> { seq![0x22u8, 0x73u8, 0x69u8, 0x6eu8, 0x63u8, 0x65u8, 0x22u8, 0x3au8] }            // "since":
pub open spec fn lit_until() -> Seq<u8> { seq![0x22u8, 0x75u8, 0x6eu8, 0x74u8, 0x69u8, 0x6cu8, 0x22u8, 0x3au8] }            // "until":
pub open spec fn ftag_json(ft: Seq<u8>, t: int) -> Seq<u8> {
    seq![0x22u8, 0x23u8] + s_bytes(ft, t, 0) + seq![0x22u8, 0x3au8, 0x5bu8] + vals_list(ft, t, t_nstr(ft, t)) + seq![0x5du8]   // "#x":[ ... ]
}
pub open spec fn fj_ids(f: Seq<u8>) -> Seq<u8> {
    seq![0x7bu8] + (if f_nids(f) > 0 { lit_ids() + ids_list(f, f_nids(f)) + seq![0x5du8] } else { Seq::<u8>::empty() })
}
pub open spec fn ne_ids(f: Seq<u8>) -> bool { f_nids(f) > 0 }
pub open spec fn fj_authors(f: Seq<u8>) -> Seq<u8> {
    fj_ids(f) + (if f_nauthors(f) > 0 { sep(ne_ids(f)) + lit_authors() + authors_list(f, f_nauthors(f)) + seq![0x5du8] } else { Seq::<u8>::empty() })
}
pub open spec fn ne_authors(f: Seq<u8>) -> bool { ne_ids(f) || f_nauthors(f) > 0 }
pub open spec fn fj_kinds(f: Seq<u8>) -> Seq<u8> {
    fj_authors(f) + (if f_nkinds(f) > 0 { sep(ne_authors(f)) + lit_kinds() + kinds_list(f, f_nkinds(f)) + seq![0x5du8] } else { Seq::<u8>::empty() })
}
pub open spec fn ne_kinds(f: Seq<u8>) -> bool { ne_authors(f) || f_nkinds(f) > 0 }
pub open spec fn fj_tags(f: Seq<u8>, n: int) -> Seq<u8>
    decreases n
{
    if n <= 0 { fj_kinds(f) } else { fj_tags(f, n - 1) + sep(ne_kinds(f) || n - 1 > 0) + ftag_json(f_tags(f), n - 1) }
}
pub open spec fn ne_tags(f: Seq<u8>) -> bool { ne_kinds(f) || t_count(f_tags(f)) > 0 }
pub open spec fn fj_limit(f: Seq<u8>) -> Seq<u8> {
    fj_tags(f, t_count(f_tags(f))) + (if f_limit(f) != u32::MAX { sep(ne_tags(f)) + lit_limit() + dec_digits(f_limit(f) as nat) } else { Seq::<u8>::empty() })
}
pub open spec fn ne_limit(f: Seq<u8>) -> bool { ne_tags(f) || f_limit(f) != u32::MAX }
pub open spec fn fj_since(f: Seq<u8>) -> Seq<u8> {
    fj_limit(f) + (if f_since(f) != 0 { sep(ne_limit(f)) + lit_since() + dec_digits(f_since(f) as nat) } else { Seq::<u8>::empty() })
}
pub open spec fn ne_since(f: Seq<u8>) -> bool { ne_limit(f) || f_since(f) != 0 }
// the JSON object of a filter: its present members, comma separated, in the order ids, authors, kinds, #tags, limit, since, until
pub open spec fn filter_json(f: Seq<u8>) -> Seq<u8> {
    fj_since(f) + (if f_until(f) != u64::MAX { sep(ne_since(f)) + lit_until() + dec_digits(f_until(f) as nat) } else { Seq::<u8>::empty() }) + seq![0x7du8]
}
pub open spec fn filter_escapable(f: Seq<u8>) -> bool {
    forall|t: int, s: int| 0 <= t < t_count(f_tags(f)) && 1 <= s < t_nstr(f_tags(f), t) ==> escapable(#[trigger] s_bytes(f_tags(f), t, s))
}
