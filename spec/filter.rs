// ---- spec/filter.rs: packed Filter layout as a mathematical view ----
//  0 len u32 | 4 nids u16 | 6 nauthors u16 | 8 nkinds u16 | 10 pad | 12 limit u32 | 16 since u64 | 24 until u64
//  32 ids | authors | kinds | tags
pub open spec fn f_nids(b: Seq<u8>) -> int { u16_at(b, 4) }
pub open spec fn f_nauthors(b: Seq<u8>) -> int { u16_at(b, 6) }
pub open spec fn f_nkinds(b: Seq<u8>) -> int { u16_at(b, 8) }
pub open spec fn f_limit(b: Seq<u8>) -> u32 { ne32(b.subrange(12, 16)) }
pub open spec fn f_since(b: Seq<u8>) -> u64 { ne64(b.subrange(16, 24)) }
pub open spec fn f_until(b: Seq<u8>) -> u64 { ne64(b.subrange(24, 32)) }
pub open spec fn f_authors_start(b: Seq<u8>) -> int { 32 + 32 * f_nids(b) }
pub open spec fn f_kinds_start(b: Seq<u8>) -> int { 32 + 32 * f_nids(b) + 32 * f_nauthors(b) }
pub open spec fn f_tags_start(b: Seq<u8>) -> int { 32 + 32 * f_nids(b) + 32 * f_nauthors(b) + 2 * f_nkinds(b) }
pub open spec fn f_id(b: Seq<u8>, i: int) -> Seq<u8> { b.subrange(32 + 32 * i, 64 + 32 * i) }
pub open spec fn f_author(b: Seq<u8>, i: int) -> Seq<u8> { b.subrange(f_authors_start(b) + 32 * i, f_authors_start(b) + 32 * i + 32) }
pub open spec fn f_kind(b: Seq<u8>, i: int) -> u16 { ne16(b.subrange(f_kinds_start(b) + 2 * i, f_kinds_start(b) + 2 * i + 2)) }
pub open spec fn f_tags(b: Seq<u8>) -> Seq<u8> { b.subrange(f_tags_start(b), f_tags_start(b) + u16_at(b, f_tags_start(b))) }
pub open spec fn wf_filter(b: Seq<u8>) -> bool {
    &&& 36 <= b.len()
    &&& u32_at(b, 0) == b.len()
    &&& f_tags_start(b) + 4 <= b.len()
    &&& f_tags_start(b) + u16_at(b, f_tags_start(b)) == b.len()
    &&& wf_tags(f_tags(b))
}
// every tag constraint has a name (from_json can never produce a nameless one; from_parts can be given one)
pub open spec fn f_named(b: Seq<u8>) -> bool {
    forall|t: int| 0 <= t < t_count(f_tags(b)) ==> #[trigger] t_nstr(f_tags(b), t) >= 1
}
// ---- NIP-01 match predicate, transcribed from the statement of C06 ----
pub open spec fn nip01_ids_ok(f: Seq<u8>, e: Seq<u8>) -> bool {
    f_nids(f) == 0 || exists|i: int| 0 <= i < f_nids(f) && #[trigger] f_id(f, i) == ev_id(e)
}
pub open spec fn nip01_authors_ok(f: Seq<u8>, e: Seq<u8>) -> bool {
    f_nauthors(f) == 0 || exists|i: int| 0 <= i < f_nauthors(f) && #[trigger] f_author(f, i) == ev_pubkey(e)
}
pub open spec fn nip01_kinds_ok(f: Seq<u8>, e: Seq<u8>) -> bool {
    f_nkinds(f) == 0 || exists|i: int| 0 <= i < f_nkinds(f) && #[trigger] f_kind(f, i) == ev_kind(e)
}
// tag constraint t of the filter: name = string 0, listed values = strings 1..
pub open spec fn nip01_constraint_ok(ft: Seq<u8>, t: int, et: Seq<u8>) -> bool {
    exists|j: int| 1 <= j < t_nstr(ft, t) && #[trigger] tags_match(et, s_bytes(ft, t, 0), s_bytes(ft, t, j))
}
pub open spec fn nip01_tags_ok(f: Seq<u8>, e: Seq<u8>) -> bool {
    forall|t: int| 0 <= t < t_count(f_tags(f)) ==> #[trigger] nip01_constraint_ok(f_tags(f), t, ev_tags(e))
}
pub open spec fn nip01_matches(f: Seq<u8>, e: Seq<u8>) -> bool {
    &&& nip01_ids_ok(f, e)
    &&& nip01_authors_ok(f, e)
    &&& nip01_kinds_ok(f, e)
    &&& f_since(f) <= ev_created_at(e) <= f_until(f)
    &&& nip01_tags_ok(f, e)
}
// the duplicate-detection bit of a tag letter: A-Z -> 0..25, a-z -> 26..51 (one bit per letter, all distinct), anything else none
pub open spec fn letter_bit(l: u8) -> Option<u64> {
    if 65 <= l <= 90 { Some((l - 65) as u64) } else if 97 <= l <= 122 { Some((l - 97 + 26) as u64) } else { None }
}
