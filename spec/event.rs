// ---- spec/event.rs: packed Event layout as a mathematical view ----
//  0 len u32 | 4 kind u16 | 6 pad | 8 created_at u64 | 16 id | 48 pubkey | 80 sig | 144 tags | content len u32 | content
pub open spec fn u32_at(b: Seq<u8>, i: int) -> int { ne32(b.subrange(i, i + 4)) as int }
pub open spec fn u64_at(b: Seq<u8>, i: int) -> int { ne64(b.subrange(i, i + 8)) as int }
pub open spec fn ev_tags_len(b: Seq<u8>) -> int { u16_at(b, 144) }
pub open spec fn ev_tags(b: Seq<u8>) -> Seq<u8> { b.subrange(144, 144 + ev_tags_len(b)) }
pub open spec fn ev_content_len(b: Seq<u8>) -> int { u32_at(b, 144 + ev_tags_len(b)) }
pub open spec fn ev_content(b: Seq<u8>) -> Seq<u8> {
    b.subrange(144 + ev_tags_len(b) + 4, 144 + ev_tags_len(b) + 4 + ev_content_len(b))
}
pub open spec fn ev_kind(b: Seq<u8>) -> u16 { ne16(b.subrange(4, 6)) }
pub open spec fn ev_created_at(b: Seq<u8>) -> u64 { ne64(b.subrange(8, 16)) }
pub open spec fn ev_id(b: Seq<u8>) -> Seq<u8> { b.subrange(16, 48) }
pub open spec fn ev_pubkey(b: Seq<u8>) -> Seq<u8> { b.subrange(48, 80) }
pub open spec fn ev_sig(b: Seq<u8>) -> Seq<u8> { b.subrange(80, 144) }
pub open spec fn wf_event(b: Seq<u8>) -> bool {
    &&& 152 <= b.len()
    &&& u32_at(b, 0) == b.len()
    &&& 144 + ev_tags_len(b) + 4 <= b.len()
    &&& wf_tags(ev_tags(b))
    &&& 144 + ev_tags_len(b) + 4 + ev_content_len(b) == b.len()
}
// the packed bytes of an event with the given fields (padding bytes 6,7 are zero)
pub open spec fn event_bytes(id: Seq<u8>, kind: u16, pubkey: Seq<u8>, sig: Seq<u8>, tags: Seq<u8>, created_at: u64, content: Seq<u8>) -> Seq<u8> {
    bytes32((144 + tags.len() + 4 + content.len()) as u32) + bytes16(kind) + seq![0u8, 0u8] + bytes64(created_at)
        + id + pubkey + sig + tags + bytes32(content.len() as u32) + content
}
pub proof fn lemma_event_bytes_fields(id: Seq<u8>, kind: u16, pubkey: Seq<u8>, sig: Seq<u8>, tags: Seq<u8>, created_at: u64, content: Seq<u8>)
    requires id.len() == 32, pubkey.len() == 32, sig.len() == 64, wf_tags(tags), 144 + tags.len() + 4 + content.len() <= u32::MAX
    ensures ({
        let b = event_bytes(id, kind, pubkey, sig, tags, created_at, content);
        &&& b.len() == 144 + tags.len() + 4 + content.len()
        &&& wf_event(b)
        &&& ev_id(b) == id && ev_kind(b) == kind && ev_pubkey(b) == pubkey && ev_sig(b) == sig
        &&& ev_tags(b) == tags && ev_created_at(b) == created_at && ev_content(b) == content
        &&& b[6] == 0 && b[7] == 0
    })
{
    let b = event_bytes(id, kind, pubkey, sig, tags, created_at, content);
    let total = (144 + tags.len() + 4 + content.len()) as u32;
    lemma_ne32_bytes32(total);
    lemma_ne16_bytes16(kind);
    lemma_ne64_bytes64(created_at);
    lemma_ne32_bytes32(content.len() as u32);
    assert(b.subrange(0, 4) =~= bytes32(total));
    assert(b.subrange(4, 6) =~= bytes16(kind));
    assert(b.subrange(8, 16) =~= bytes64(created_at));
    assert(b.subrange(16, 48) =~= id);
    assert(b.subrange(48, 80) =~= pubkey);
    assert(b.subrange(80, 144) =~= sig);
    // tags length field = first two bytes of the tags section
    assert(b.subrange(144, 146) =~= tags.subrange(0, 2));
    assert(u16_at(tags, 0) == tags.len());
    assert(u16_at(b, 144) == tags.len());
    assert(b.subrange(144, 144 + tags.len() as int) =~= tags);
    let t = tags.len() as int;
    assert(b.subrange(144 + t, 144 + t + 4) =~= bytes32(content.len() as u32));
    assert(b.subrange(144 + t + 4, 144 + t + 4 + content.len()) =~= content);
}
