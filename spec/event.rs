// ---- spec/event.rs: packed Event layout as a mathematical view ----
//  0 len u32 | 4 kind u16 | 6 pad | 8 created_at u64 | 16 id | 48 pubkey | 80 sig | 144 tags | content len u32 | content
pub open spec fn u32_at(b: Seq<u8>, i: int) -> int { ne32(b.subrange(i, i + 4)) as int }
pub open spec fn u64_at(b: Seq<u8>, i: int) -> int { ne64(b.subrange(i, i + 8)) as int }
pub open spec fn ev_tags_len(b: Seq<u8>) -> int { u16_at(b, 144) }
pub open spec fn ev_tags(b: Seq<u8>) -> Seq<u8> { b.subrange(144, 144 + ev_tags_len(b)) }
pub open spec fn ev_content_len(b: Seq<u8>) -> int { u32_at(b, 144 + ev_tags_len(b)) }
pub open spec fn ev_content(b: Seq<u8>) -> Seq<u8> {
    b.subrange(144 + ev_tags_len(b) + 4, 144 + ev_tags_len(b) + 4 + ev_content_len(b))
}
pub open spec fn ev_kind(b: Seq<u8>) -> u16 { ne16(b.subrange(4, 6)) }
pub open spec fn ev_created_at(b: Seq<u8>) -> u64 { ne64(b.subrange(8, 16)) }
pub open spec fn ev_id(b: Seq<u8>) -> Seq<u8> { b.subrange(16, 48) }
pub open spec fn ev_pubkey(b: Seq<u8>) -> Seq<u8> { b.subrange(48, 80) }
pub open spec fn ev_sig(b: Seq<u8>) -> Seq<u8> { b.subrange(80, 144) }
pub open spec fn wf_event(b: Seq<u8>) -> bool {
    &&& 152 <= b.len()
    &&& u32_at(b, 0) == b.len()
    &&& 144 + ev_tags_len(b) + 4 <= b.len()
    &&& wf_tags(ev_tags(b))
    &&& 144 + ev_tags_len(b) + 4 + ev_content_len(b) == b.len()
}
