// ---- spec/addr.rs: the textual address "kind:author:d" ----
pub open spec fn addr_c1(s: Seq<u8>) -> int { first_sep(s, 0x3au8) }
pub open spec fn addr_rest1(s: Seq<u8>) -> Seq<u8> { s.subrange(addr_c1(s) + 1, s.len() as int) }
pub open spec fn addr_c2(s: Seq<u8>) -> int { first_sep(addr_rest1(s), 0x3au8) }
pub open spec fn addr_split_ok(s: Seq<u8>) -> bool { addr_c1(s) < s.len() && addr_c2(s) < addr_rest1(s).len() }
pub open spec fn addr_author_text(s: Seq<u8>) -> Seq<u8> { addr_rest1(s).subrange(0, addr_c2(s)) }
pub open spec fn addr_d_text(s: Seq<u8>) -> Seq<u8> { addr_rest1(s).subrange(addr_c2(s) + 1, addr_rest1(s).len() as int) }
