// ---- spec/lex.rs: JSON lexemes (RFC 8259) over byte sequences ----
pub open spec fn is_ws(c: u8) -> bool { c == 0x20 || c == 0x09 || c == 0x0A || c == 0x0D }
pub open spec fn is_digit(c: u8) -> bool { 0x30 <= c <= 0x39 }
// first position >= i that is not insignificant whitespace (or the end)
pub open spec fn ws_end(s: Seq<u8>, i: int) -> int
    decreases s.len() - i
{
    if 0 <= i < s.len() && is_ws(s[i]) { ws_end(s, i + 1) } else { i }
}
pub proof fn lemma_ws_end(s: Seq<u8>, i: int)
    requires 0 <= i <= s.len()
    ensures
        i <= ws_end(s, i) <= s.len(),
        forall|k: int| i <= k < ws_end(s, i) ==> is_ws(#[trigger] s[k]),
        ws_end(s, i) < s.len() ==> !is_ws(s[ws_end(s, i)]),
    decreases s.len() - i
{
    if i < s.len() && is_ws(s[i]) { lemma_ws_end(s, i + 1); }
}
// characterisation: any position with these three properties is ws_end
pub proof fn lemma_ws_end_unique(s: Seq<u8>, i: int, j: int)
    requires 0 <= i <= j <= s.len(),
        forall|k: int| i <= k < j ==> is_ws(#[trigger] s[k]),
        j < s.len() ==> !is_ws(s[j]),
    ensures ws_end(s, i) == j
    decreases j - i
{
    if i < j { lemma_ws_end_unique(s, i + 1, j); }
}
// end of the maximal digit run starting at i
pub open spec fn digits_end(s: Seq<u8>, i: int) -> int
    decreases s.len() - i
{
    if 0 <= i < s.len() && is_digit(s[i]) { digits_end(s, i + 1) } else { i }
}
// value of the decimal digit string s[i..j) (mathematical integer, no bound)
pub open spec fn digits_val(s: Seq<u8>, i: int, j: int) -> nat
    decreases j - i
{
    if j <= i { 0 } else { (digits_val(s, i, j - 1) * 10 + (s[j - 1] - 0x30)) as nat }
}
pub proof fn lemma_digits_val_step(s: Seq<u8>, i: int, j: int)
    requires 0 <= i <= j < s.len(), is_digit(s[j])
    ensures digits_val(s, i, j + 1) == digits_val(s, i, j) * 10 + (s[j] - 0x30),
        digits_end(s, j) == digits_end(s, j + 1),
{
}
pub proof fn lemma_digits_end(s: Seq<u8>, i: int)
    requires 0 <= i <= s.len()
    ensures i <= digits_end(s, i) <= s.len(),
        forall|k: int| i <= k < digits_end(s, i) ==> is_digit(#[trigger] s[k]),
        digits_end(s, i) < s.len() ==> !is_digit(s[digits_end(s, i)]),
    decreases s.len() - i
{
    if i < s.len() && is_digit(s[i]) { lemma_digits_end(s, i + 1); }
}
// a longer digit string never denotes a smaller number
pub proof fn lemma_digits_val_mono(s: Seq<u8>, i: int, j: int, k: int)
    requires 0 <= i <= j <= k <= s.len(), forall|m: int| i <= m < k ==> is_digit(#[trigger] s[m])
    ensures digits_val(s, i, j) <= digits_val(s, i, k)
    decreases k - j
{
    if j < k {
        lemma_digits_val_mono(s, i, j, k - 1);
        assert(is_digit(s[k - 1]));
        assert(digits_val(s, i, k) == digits_val(s, i, k - 1) * 10 + (s[k - 1] - 0x30));
    }
}
