// ---- spec/tags_parts.rs: size and content of a Tags value built from parts ----
// bytes needed for the first k strings of a tag: (len u16, bytes)*
pub open spec fn strs_size(tag: Seq<Seq<u8>>, k: int) -> int
    decreases k
{
    if k <= 0 { 0 } else { strs_size(tag, k - 1) + 2 + tag[k - 1].len() }
}
// bytes needed for the data of the first n tags: (count u16, strings)*
pub open spec fn data_size(pv: TagsView, n: int) -> int
    decreases n
{
    if n <= 0 { 0 } else { data_size(pv, n - 1) + 2 + strs_size(pv[n - 1], pv[n - 1].len() as int) }
}
pub open spec fn tags_size(pv: TagsView) -> int { 4 + 2 * pv.len() + data_size(pv, pv.len() as int) }
pub proof fn lemma_strs_size_mono(tag: Seq<Seq<u8>>, a: int, b: int)
    requires 0 <= a <= b
    ensures strs_size(tag, a) + 2 * (b - a) <= strs_size(tag, b)
    decreases b - a
{ if a < b { lemma_strs_size_mono(tag, a, b - 1); } }
pub proof fn lemma_data_size_mono(pv: TagsView, a: int, b: int)
    requires 0 <= a <= b
    ensures data_size(pv, a) + 2 * (b - a) <= data_size(pv, b)
    decreases b - a
{ if a < b { lemma_data_size_mono(pv, a, b - 1); lemma_strs_size_mono(pv[b - 1], 0, pv[b - 1].len() as int); } }
// the k-th string of the run of strings starting at `start`
pub open spec fn str_at(b: Seq<u8>, start: int, k: int) -> Seq<u8> {
    b.subrange(so(b, start, k) + 2, so(b, start, k) + 2 + u16_at(b, so(b, start, k)))
}
// tag j of the buffer is complete and holds exactly the strings of `tag`, in order
pub open spec fn tag_holds(b: Seq<u8>, j: int, n: int, limit: int, tag: Seq<Seq<u8>>) -> bool {
    &&& tag_done(b, j, n, limit)
    &&& u16_at(b, t_off(b, j)) == tag.len()
    &&& forall|k: int| 0 <= k < tag.len() ==> #[trigger] str_at(b, t_off(b, j) + 2, k) == tag[k]
}
// two buffers that agree on [start, so(b,start,n)) hold the same n strings there
pub proof fn lemma_str_at_frame(b: Seq<u8>, b2: Seq<u8>, start: int, n: int)
    requires 0 <= n, 0 <= start, so(b, start, n) <= b.len(), so(b, start, n) <= b2.len(),
        forall|i: int| start <= i < so(b, start, n) ==> #[trigger] b2[i] == b[i],
    ensures forall|s: int| 0 <= s < n ==> #[trigger] str_at(b2, start, s) == str_at(b, start, s),
        forall|s: int| 0 <= s <= n ==> #[trigger] so(b2, start, s) == so(b, start, s),
{
    lemma_so_frame(b, b2, start, n);
    assert forall|s: int| 0 <= s < n implies #[trigger] str_at(b2, start, s) == str_at(b, start, s) by {
        lemma_so_mono(b, start, 0, s);
        lemma_so_mono(b, start, s + 1, n);
        assert(so(b2, start, s) == so(b, start, s));
        assert(so(b, start, s + 1) == so(b, start, s) + 2 + u16_at(b, so(b, start, s)));
        assert(str_at(b2, start, s) =~= str_at(b, start, s));
    }
}
// writes outside slot j and outside tag j's data leave tag j and its strings as they are
pub proof fn lemma_tag_holds_frame(b: Seq<u8>, b2: Seq<u8>, j: int, n: int, limit: int, tag: Seq<Seq<u8>>)
    requires tag_holds(b, j, n, limit, tag), limit <= b.len(), b2.len() == b.len(), 0 <= j < n,
        forall|i: int| ((4 + 2 * j <= i < 4 + 2 * j + 2) || (t_off(b, j) <= i < tag_end_at(b, t_off(b, j)))) ==> #[trigger] b2[i] == b[i],
    ensures tag_holds(b2, j, n, limit, tag), t_off(b2, j) == t_off(b, j)
{
    lemma_tag_done_frame(b, b2, j, n, limit);
    let off = t_off(b, j);
    let ns = u16_at(b, off);
    lemma_so_mono(b, off + 2, 0, ns);
    assert(b2.subrange(off, off + 2) =~= b.subrange(off, off + 2));
    lemma_str_at_frame(b, b2, off + 2, ns);
    assert forall|k: int| 0 <= k < tag.len() implies #[trigger] str_at(b2, t_off(b2, j) + 2, k) == tag[k] by {
        assert(str_at(b, off + 2, k) == tag[k]);
    }
}
// a buffer whose header is written and whose tags 0..n hold pv[0..n] is, cut at its length field, a well-formed Tags
// value whose view is pv
pub proof fn lemma_view_from_layout(b: Seq<u8>, n: int, len: int, pv: TagsView)
    requires 4 <= len <= 65535, len <= b.len(), u16_at(b, 0) == len, u16_at(b, 2) == n, 0 <= n, 4 + 2 * n <= len,
        pv.len() == n,
        forall|j: int| 0 <= j < n ==> #[trigger] tag_holds(b, j, n, len, pv[j]),
    ensures wf_tags(b.subrange(0, len)), tags_view(b.subrange(0, len)) =~= pv,
        forall|j: int| 0 <= j < n ==> #[trigger] t_off(b.subrange(0, len), j) == t_off(b, j),
{
    let c = b.subrange(0, len);
    assert forall|j: int| 0 <= j < n implies #[trigger] tag_done(b, j, n, len) by { assert(tag_holds(b, j, n, len, pv[j])); }
    lemma_wf_from_layout(b, n, len);
    assert forall|i: int| 0 <= i && i + 2 <= len implies #[trigger] u16_at(c, i) == u16_at(b, i) by {
        assert(c.subrange(i, i + 2) =~= b.subrange(i, i + 2));
    }
    assert(t_count(c) == n);
    assert forall|t: int| 0 <= t < n implies #[trigger] tags_view(c)[t] =~= pv[t] by {
        assert(tag_holds(b, t, n, len, pv[t]));
        let off = t_off(b, t);
        assert(t_off(c, t) == off);
        let ns = u16_at(b, off);
        lemma_so_mono(b, off + 2, 0, ns);
        assert(u16_at(c, off) == ns);
        assert forall|i: int| off + 2 <= i < so(b, off + 2, ns) implies #[trigger] c[i] == b[i] by { }
        lemma_str_at_frame(b, c, off + 2, ns);
        assert(t_nstr(c, t) == pv[t].len());
        assert forall|s: int| 0 <= s < ns implies #[trigger] tag_view(c, t)[s] == pv[t][s] by {
            lemma_so_is_s_off(c, t, s);
            assert(s_bytes(c, t, s) == str_at(c, off + 2, s));
            assert(str_at(b, off + 2, s) == pv[t][s]);
        }
    }
}
