// ---- spec/utf8.rs: UTF-8 (RFC 3629) bit layout, as pure functions over byte sequences ----
// Width of the sequence announced by a lead byte (bytes >= 0x80 that are not a valid lead are
// classed with the nearest class; the RFC leaves them undefined).
pub open spec fn cp_width(x: u8) -> int {
    if x < 0x80 { 1 } else if x < 0xE0 { 2 } else if x < 0xF0 { 3 } else { 4 }
}
pub open spec fn cont(b: u8) -> u32 { (b & 0x3F) as u32 }
// Scalar value carried by the sequence starting at s[0] (RFC 3629 section 3 table)
pub open spec fn cp2(x: u8, y: u8) -> u32 { (((x & 0x1F) as u32) << 6) | cont(y) }
pub open spec fn cp3(x: u8, y: u8, z: u8) -> u32 { (((x & 0x1F) as u32) << 12) | (cont(y) << 6) | cont(z) }
pub open spec fn cp4(x: u8, y: u8, z: u8, w: u8) -> u32 {
    (((x & 0x07) as u32) << 18) | (cont(y) << 12) | (cont(z) << 6) | cont(w)
}
pub open spec fn cp_value(s: Seq<u8>) -> u32 {
    let x = s[0];
    if x < 0x80 { x as u32 }
    else if x < 0xE0 { cp2(x, s[1]) }
    else if x < 0xF0 { cp3(x, s[1], s[2]) }
    else { cp4(x, s[1], s[2], s[3]) }
}
// RFC 3629 encoder
pub open spec fn utf8_len(c: u32) -> int {
    if c < 0x80 { 1 } else if c < 0x800 { 2 } else if c < 0x10000 { 3 } else { 4 }
}
pub open spec fn utf8_bytes(c: u32) -> Seq<u8> {
    if c < 0x80 { seq![c as u8] }
    else if c < 0x800 { seq![((c >> 6) & 0x1F) as u8 | 0xC0u8, (c & 0x3F) as u8 | 0x80u8] }
    else if c < 0x10000 { seq![((c >> 12) & 0x0F) as u8 | 0xE0u8, ((c >> 6) & 0x3F) as u8 | 0x80u8, (c & 0x3F) as u8 | 0x80u8] }
    else { seq![((c >> 18) & 0x07) as u8 | 0xF0u8, ((c >> 12) & 0x3F) as u8 | 0x80u8, ((c >> 6) & 0x3F) as u8 | 0x80u8, (c & 0x3F) as u8 | 0x80u8] }
}
// decoding an encoded scalar gives the scalar back (for c <= 0x1FFFFF)
pub proof fn lemma_utf8_roundtrip(c: u32)
    requires c <= 0x10FFFF
    ensures cp_value(utf8_bytes(c)) == c, cp_width(utf8_bytes(c)[0]) == utf8_len(c), utf8_bytes(c).len() == utf8_len(c)
{
    if c < 0x80 {
    } else if c < 0x800 {
        assert((((c >> 6) & 0x1F) as u8 | 0xC0u8) >= 0x80 && (((c >> 6) & 0x1F) as u8 | 0xC0u8) < 0xE0) by (bit_vector) requires c < 0x800;
        assert((((((c >> 6) & 0x1F) as u8 | 0xC0u8) & 0x1F) as u32) << 6 | ((((c & 0x3F) as u8 | 0x80u8) & 0x3F) as u32) == c) by (bit_vector) requires c < 0x800;
    } else if c < 0x10000 {
        assert((((c >> 12) & 0x0F) as u8 | 0xE0u8) >= 0xE0 && (((c >> 12) & 0x0F) as u8 | 0xE0u8) < 0xF0) by (bit_vector) requires c < 0x10000;
        assert((((((c >> 12) & 0x0F) as u8 | 0xE0u8) & 0x1F) as u32) << 12
            | (((((c >> 6) & 0x3F) as u8 | 0x80u8) & 0x3F) as u32) << 6
            | ((((c & 0x3F) as u8 | 0x80u8) & 0x3F) as u32) == c) by (bit_vector) requires c < 0x10000;
    } else {
        assert((((c >> 18) & 0x07) as u8 | 0xF0u8) >= 0xF0) by (bit_vector) requires c <= 0x10FFFF;
        assert((((((c >> 18) & 0x07) as u8 | 0xF0u8) & 0x07) as u32) << 18
            | (((((c >> 12) & 0x3F) as u8 | 0x80u8) & 0x3F) as u32) << 12
            | (((((c >> 6) & 0x3F) as u8 | 0x80u8) & 0x3F) as u32) << 6
            | ((((c & 0x3F) as u8 | 0x80u8) & 0x3F) as u32) == c) by (bit_vector) requires c <= 0x10FFFF;
    }
}
