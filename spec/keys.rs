// ---- spec/keys.rs: LMDB key layouts (documented in pocket-db/src/lmdb/mod.rs comments) ----
pub open spec fn rev_time(t: u64) -> Seq<u8> { be64((u64::MAX - t) as u64) }
// fixed-length tag field: value padded with NULs to 182 bytes, or its first 182 bytes
pub open spec fn pad182(v: Seq<u8>) -> Seq<u8> {
    if v.len() <= 182 { v + Seq::new((182 - v.len()) as nat, |i: int| 0u8) } else { v.subrange(0, 182) }
}
pub open spec fn k_ci(t: u64, id: Seq<u8>) -> Seq<u8> { rev_time(t) + id }
pub open spec fn k_tc(letter: u8, v: Seq<u8>, t: u64, id: Seq<u8>) -> Seq<u8> { seq![letter] + pad182(v) + rev_time(t) + id }
pub open spec fn k_ac(author: Seq<u8>, t: u64, id: Seq<u8>) -> Seq<u8> { author + rev_time(t) + id }
pub open spec fn k_akc(author: Seq<u8>, kind: u16, t: u64, id: Seq<u8>) -> Seq<u8> { author + be16(kind) + rev_time(t) + id }
pub open spec fn k_atc(author: Seq<u8>, letter: u8, v: Seq<u8>, t: u64, id: Seq<u8>) -> Seq<u8> {
    author + seq![letter] + pad182(v) + rev_time(t) + id
}
pub open spec fn k_ktc(kind: u16, letter: u8, v: Seq<u8>, t: u64, id: Seq<u8>) -> Seq<u8> {
    be16(kind) + seq![letter] + pad182(v) + rev_time(t) + id
}
pub open spec fn min182(n: int) -> int { if n <= 182 { n } else { 182 } }
pub open spec fn k_naddr(kind: u16, author: Seq<u8>, d: Seq<u8>) -> Seq<u8> {
    be16(kind) + author + seq![min182(d.len() as int) as u8] + pad182(d)
}
pub open spec fn zeros32() -> Seq<u8> { Seq::new(32, |i: int| 0u8) }
pub open spec fn ffs32() -> Seq<u8> { Seq::new(32, |i: int| 255u8) }
pub broadcast proof fn lemma_id_zeros(id: Id)
    requires forall|i: int| 0 <= i < 32 ==> id.0@[i] == 0u8
    ensures #[trigger] id_view(id) == zeros32()
{
    assert(id_view(id) =~= zeros32());
}
pub broadcast proof fn lemma_id_ffs(id: Id)
    requires forall|i: int| 0 <= i < 32 ==> id.0@[i] == 255u8
    ensures #[trigger] id_view(id) == ffs32()
{
    assert(id_view(id) =~= ffs32());
}
// ---- the deleted-address marker key is decodable: what dump_naddr_deleted reads back re-encodes to the same key ----
pub open spec fn naddr_kind(k: Seq<u8>) -> u16 { from_be16(k.subrange(0, 2)) }
pub open spec fn naddr_author(k: Seq<u8>) -> Seq<u8> { k.subrange(2, 34) }
pub open spec fn naddr_d(k: Seq<u8>) -> Seq<u8> { k.subrange(35, 35 + min182(k[34] as int)) }
pub open spec fn is_naddr_key(k: Seq<u8>) -> bool {
    exists|kind: u16, author: Seq<u8>, d: Seq<u8>| author.len() == 32 && k == #[trigger] k_naddr(kind, author, d)
}
pub proof fn lemma_naddr_decode(kind: u16, author: Seq<u8>, d: Seq<u8>)
    requires author.len() == 32
    ensures ({
        let k = k_naddr(kind, author, d);
        &&& k.len() == 217
        &&& k[34] as int == min182(d.len() as int)
        &&& naddr_kind(k) == kind && naddr_author(k) == author
        &&& naddr_d(k) == (if d.len() <= 182 { d } else { d.subrange(0, 182) })
        &&& k_naddr(naddr_kind(k), naddr_author(k), naddr_d(k)) == k
    })
{
    let k = k_naddr(kind, author, d);
    lemma_from_be16(kind);
    assert(k.subrange(0, 2) =~= be16(kind));
    assert(k.subrange(2, 34) =~= author);
    let dl = min182(d.len() as int);
    assert(k[34] == dl as u8);
    let d2 = if d.len() <= 182 { d } else { d.subrange(0, 182) };
    assert(k.subrange(35, 35 + dl) =~= d2);
    assert(pad182(d2) =~= pad182(d));
    assert(min182(d2.len() as int) == dl);
    assert(k_naddr(kind, author, d2) =~= k);
}
pub open spec fn has_id(v: Seq<Id>, k: Seq<u8>) -> bool { exists|i: int| 0 <= i < v.len() && id_view(#[trigger] v[i]) == k }
