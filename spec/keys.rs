// ---- spec/keys.rs: LMDB key layouts (documented in pocket-db/src/lmdb/mod.rs comments) ----
pub open spec fn rev_time(t: u64) -> Seq<u8> { be64((u64::MAX - t) as u64) }
// fixed-length tag field: value padded with NULs to 182 bytes, or its first 182 bytes
pub open spec fn pad182(v: Seq<u8>) -> Seq<u8> {
    if v.len() <= 182 { v + Seq::new((182 - v.len()) as nat, |i: int| 0u8) } else { v.subrange(0, 182) }
}
pub open spec fn k_ci(t: u64, id: Seq<u8>) -> Seq<u8> { rev_time(t) + id }
pub open spec fn k_tc(letter: u8, v: Seq<u8>, t: u64, id: Seq<u8>) -> Seq<u8> { seq![letter] + pad182(v) + rev_time(t) + id }
pub open spec fn k_ac(author: Seq<u8>, t: u64, id: Seq<u8>) -> Seq<u8> { author + rev_time(t) + id }
pub open spec fn k_akc(author: Seq<u8>, kind: u16, t: u64, id: Seq<u8>) -> Seq<u8> { author + be16(kind) + rev_time(t) + id }
pub open spec fn k_atc(author: Seq<u8>, letter: u8, v: Seq<u8>, t: u64, id: Seq<u8>) -> Seq<u8> {
    author + seq![letter] + pad182(v) + rev_time(t) + id
}
pub open spec fn k_ktc(kind: u16, letter: u8, v: Seq<u8>, t: u64, id: Seq<u8>) -> Seq<u8> {
    be16(kind) + seq![letter] + pad182(v) + rev_time(t) + id
}
pub open spec fn min182(n: int) -> int { if n <= 182 { n } else { 182 } }
pub open spec fn k_naddr(kind: u16, author: Seq<u8>, d: Seq<u8>) -> Seq<u8> {
    be16(kind) + author + seq![min182(d.len() as int) as u8] + pad182(d)
}
pub open spec fn zeros32() -> Seq<u8> { Seq::new(32, |i: int| 0u8) }
pub open spec fn ffs32() -> Seq<u8> { Seq::new(32, |i: int| 255u8) }
pub broadcast proof fn lemma_id_zeros(id: Id)
    requires forall|i: int| 0 <= i < 32 ==> id.0@[i] == 0u8
    ensures #[trigger] id_view(id) == zeros32()
{
    assert(id_view(id) =~= zeros32());
}
pub broadcast proof fn lemma_id_ffs(id: Id)
    requires forall|i: int| 0 <= i < 32 ==> id.0@[i] == 255u8
    ensures #[trigger] id_view(id) == ffs32()
{
    assert(id_view(id) =~= ffs32());
}
