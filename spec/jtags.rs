// ---- spec/jtags.rs: JSON arrays of strings and arrays of such arrays (the "tags" member), read from the grammar ----
//   tag  = "[" ws ( "]" / string ws *( "," ws string ws ) "]" )          tags = "[" ws ( "]" / tag ws *( "," ws tag ws ) "]" )
// the strings of a tag from the string token whose opening quote is at p: (offset just past the closing bracket, values)
#[verifier::opaque]
pub open spec fn jtag_from(input: Seq<u8>, p: int) -> Option<(int, Seq<Seq<u8>>)>
    decreases input.len() - p
{
    match jstr(input, p) {
        None => None,
        Some((e, v)) => {
            let e2 = ws_end(input, e);
            if e2 < 0 || e2 >= input.len() { None }
            else if input[e2] == 0x2C {
                let p2 = ws_end(input, e2 + 1);
                if p2 <= p || p2 > input.len() { None }
                else { match jtag_from(input, p2) { None => None, Some((f, vs)) => Some((f, seq![v] + vs)) } }
            } else if input[e2] == 0x5D { Some((e2 + 1, seq![v])) }
            else { None }
        }
    }
}
// a tag, cursor just after its "[" and whitespace
pub open spec fn jtag(input: Seq<u8>, p: int) -> Option<(int, Seq<Seq<u8>>)> {
    if 0 <= p < input.len() && input[p] == 0x5D { Some((p + 1, Seq::<Seq<u8>>::empty())) } else { jtag_from(input, p) }
}
// one-step unfolding
pub proof fn lemma_jtag_from_step(input: Seq<u8>, q: int)
    requires jtag_from(input, q) is Some, 0 <= q
    ensures jstr(input, q) is Some,
        ({
            let e = jstr(input, q)->Some_0.0;
            let v = jstr(input, q)->Some_0.1;
            let e2 = ws_end(input, e);
            let p2 = ws_end(input, e2 + 1);
            &&& e2 < input.len()
            &&& (input[e2] == 0x2C || input[e2] == 0x5D)
            &&& input[e2] == 0x2C ==> (jtag_from(input, p2) is Some && p2 < input.len()
                    && jtag_from(input, q) == Some((jtag_from(input, p2)->Some_0.0, seq![v] + jtag_from(input, p2)->Some_0.1)))
            &&& input[e2] == 0x5D ==> jtag_from(input, q) == Some((e2 + 1, seq![v]))
        }),
        jtag_from(input, q)->Some_0.1.len() >= 1,
{
    reveal(jtag_from);
    lemma_jstr_bounds(input, q);
    let e = jstr(input, q)->Some_0.0;
    let e2 = ws_end(input, e);
    lemma_ws_end(input, e);
    if input[e2] == 0x2C {
        lemma_ws_end(input, e2 + 1);
        let p2 = ws_end(input, e2 + 1);
        // a tag cannot start at the very end
        if p2 >= input.len() { assert(jstr(input, p2) is None); assert(jtag_from(input, p2) is None); }
    }
}
// the tags from the tag whose body starts at p (cursor just after that tag's "[" and whitespace):
// (offset just past the closing bracket of the outer array, values)
#[verifier::opaque]
pub open spec fn jtags_from(input: Seq<u8>, p: int) -> Option<(int, Seq<Seq<Seq<u8>>>)>
    decreases input.len() - p
{
    match jtag(input, p) {
        None => None,
        Some((e, t)) => {
            let e2 = ws_end(input, e);
            if e2 < 0 || e2 >= input.len() { None }
            else if input[e2] == 0x2C {
                let b = ws_end(input, e2 + 1);
                if b < 0 || b >= input.len() || input[b] != 0x5B { None }
                else {
                    let p2 = ws_end(input, b + 1);
                    if p2 <= p || p2 > input.len() { None }
                    else { match jtags_from(input, p2) { None => None, Some((f, ts)) => Some((f, seq![t] + ts)) } }
                }
            } else if input[e2] == 0x5D { Some((e2 + 1, seq![t])) }
            else { None }
        }
    }
}
// the "tags" array, cursor at its "["
pub open spec fn jtags(input: Seq<u8>, p: int) -> Option<(int, Seq<Seq<Seq<u8>>>)> {
    if p < 0 || p >= input.len() || input[p] != 0x5B { None }
    else {
        let a = ws_end(input, p + 1);
        if a < 0 || a >= input.len() { None }
        else if input[a] == 0x5D { Some((a + 1, Seq::<Seq<Seq<u8>>>::empty())) }
        else if input[a] == 0x5B { jtags_from(input, ws_end(input, a + 1)) }
        else { None }
    }
}
pub proof fn lemma_jtags_from_step(input: Seq<u8>, p: int)
    requires jtags_from(input, p) is Some, 0 <= p
    ensures jtag(input, p) is Some,
        ({
            let e = jtag(input, p)->Some_0.0;
            let t = jtag(input, p)->Some_0.1;
            let e2 = ws_end(input, e);
            let b = ws_end(input, e2 + 1);
            let p2 = ws_end(input, b + 1);
            &&& 0 <= e2 < input.len()
            &&& (input[e2] == 0x2C || input[e2] == 0x5D)
            &&& input[e2] == 0x2C ==> (b < input.len() && input[b] == 0x5B && jtags_from(input, p2) is Some
                    && jtags_from(input, p) == Some((jtags_from(input, p2)->Some_0.0, seq![t] + jtags_from(input, p2)->Some_0.1)))
            &&& input[e2] == 0x5D ==> jtags_from(input, p) == Some((e2 + 1, seq![t]))
        }),
        jtags_from(input, p)->Some_0.1.len() >= 1,
{
    reveal(jtags_from);
}
