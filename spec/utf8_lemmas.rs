// ---- spec/utf8_lemmas.rs: bit-vector facts tying the accumulate-and-shift decoder to the RFC layout ----
pub proof fn lemma_ncp_bits()
    ensures
        forall|x: u8, y: u8| #[trigger] cp2(x, y) == ((((x & (0x7Fu8 >> 2u32)) as u32) << 6u32) | ((y & 0x3Fu8) as u32)),
        forall|x: u8, y: u8, z: u8| #[trigger] cp3(x, y, z) ==
            (((x & (0x7Fu8 >> 2u32)) as u32) << 12u32) | ((((y & 0x3Fu8) as u32) << 6u32) | ((z & 0x3Fu8) as u32)),
        forall|x: u8, y: u8, z: u8, w: u8| #[trigger] cp4(x, y, z, w) ==
            ((((x & (0x7Fu8 >> 2u32)) as u32) & 7u32) << 18u32)
            | ((((((y & 0x3Fu8) as u32) << 6u32) | ((z & 0x3Fu8) as u32)) << 6u32) | ((w & 0x3Fu8) as u32)),
{
    assert forall|x: u8, y: u8| #[trigger] cp2(x, y) == ((((x & (0x7Fu8 >> 2u32)) as u32) << 6u32) | ((y & 0x3Fu8) as u32)) by {
        assert((((x & 0x1F) as u32) << 6) | ((y & 0x3F) as u32) == ((((x & (0x7Fu8 >> 2u32)) as u32) << 6u32) | ((y & 0x3Fu8) as u32))) by (bit_vector);
    }
    assert forall|x: u8, y: u8, z: u8| #[trigger] cp3(x, y, z) ==
            (((x & (0x7Fu8 >> 2u32)) as u32) << 12u32) | ((((y & 0x3Fu8) as u32) << 6u32) | ((z & 0x3Fu8) as u32)) by {
        assert((((x & 0x1F) as u32) << 12) | (((y & 0x3F) as u32) << 6) | ((z & 0x3F) as u32) ==
            (((x & (0x7Fu8 >> 2u32)) as u32) << 12u32) | ((((y & 0x3Fu8) as u32) << 6u32) | ((z & 0x3Fu8) as u32))) by (bit_vector);
    }
    assert forall|x: u8, y: u8, z: u8, w: u8| #[trigger] cp4(x, y, z, w) ==
            ((((x & (0x7Fu8 >> 2u32)) as u32) & 7u32) << 18u32)
            | ((((((y & 0x3Fu8) as u32) << 6u32) | ((z & 0x3Fu8) as u32)) << 6u32) | ((w & 0x3Fu8) as u32)) by {
        assert((((x & 0x07) as u32) << 18) | (((y & 0x3F) as u32) << 12) | (((z & 0x3F) as u32) << 6) | ((w & 0x3F) as u32) ==
            ((((x & (0x7Fu8 >> 2u32)) as u32) & 7u32) << 18u32)
            | ((((((y & 0x3Fu8) as u32) << 6u32) | ((z & 0x3Fu8) as u32)) << 6u32) | ((w & 0x3Fu8) as u32))) by (bit_vector);
    }
}
