//! Replay driver: runs one entry point of the REAL pocket code (built from /repo by path) on a concrete
//! input under catch_unwind and prints the observable outcome as one JSON line.
use pocket_types::{Event, Filter, Hll8, Id, Tags, Addr};
use std::panic;

fn unhex(s: &str) -> Vec<u8> {
    // `@path` reads the hex text from a file (for inputs longer than the OS argument limit)
    let owned;
    let s = if let Some(p) = s.strip_prefix('@') { owned = std::fs::read_to_string(p).unwrap(); owned.trim() } else { s };
    (0..s.len() / 2).map(|i| u8::from_str_radix(&s[2 * i..2 * i + 2], 16).unwrap()).collect()
}
fn hex(b: &[u8]) -> String {
    b.iter().map(|x| format!("{:02x}", x)).collect()
}
fn jstr(s: &str) -> String {
    let mut o = String::from("\"");
    for c in s.chars() {
        match c {
            '"' => o.push_str("\\\""),
            '\\' => o.push_str("\\\\"),
            c if (c as u32) < 0x20 => o.push_str(&format!("\\u{:04x}", c as u32)),
            c => o.push(c),
        }
    }
    o.push('"');
    o
}

fn tags_json(tags: &Tags) -> String {
    let mut o = String::from("[");
    let mut first = true;
    for t in tags.iter() {
        if !first { o.push(','); }
        first = false;
        o.push('[');
        let mut f2 = true;
        for s in t {
            if !f2 { o.push(','); }
            f2 = false;
            o.push_str(&format!("\"{}\"", hex(s)));
        }
        o.push(']');
    }
    o.push(']');
    o
}

fn event_obs(e: &Event, consumed: usize) -> String {
    let tags = e.tags().map(|t| tags_json(t)).unwrap_or_else(|_| "null".into());
    let aj = match e.as_json() { Ok(v) => format!("\"{}\"", hex(&v)), Err(_) => "null".into() };
    format!(
        "{{\"outcome\":\"ok\",\"consumed\":{},\"bytes\":\"{}\",\"id\":\"{}\",\"pubkey\":\"{}\",\"sig\":\"{}\",\"kind\":{},\"created_at\":{},\"tags\":{},\"content\":\"{}\",\"as_json\":{}}}",
        consumed, hex(e.as_bytes()), hex(e.id().as_slice()), hex(e.pubkey().as_slice()), hex(e.sig().as_slice()),
        e.kind().as_u16(), e.created_at().as_u64(), tags, hex(e.content()), aj
    )
}

fn filter_obs(f: &Filter, consumed: usize) -> String {
    let ids: Vec<String> = f.ids().map(|i| format!("\"{}\"", hex(i.as_slice()))).collect();
    let authors: Vec<String> = f.authors().map(|i| format!("\"{}\"", hex(i.as_slice()))).collect();
    let kinds: Vec<String> = f.kinds().map(|k| format!("{}", k.as_u16())).collect();
    let tags = f.tags().map(|t| tags_json(t)).unwrap_or_else(|_| "null".into());
    let aj = match f.as_json() { Ok(v) => format!("\"{}\"", hex(&v)), Err(_) => "null".into() };
    format!(
        "{{\"outcome\":\"ok\",\"consumed\":{},\"bytes\":\"{}\",\"ids\":[{}],\"authors\":[{}],\"kinds\":[{}],\"tags\":{},\"limit\":{},\"since\":{},\"until\":{},\"as_json\":{}}}",
        consumed, hex(f.as_bytes()), ids.join(","), authors.join(","), kinds.join(","), tags, f.limit(),
        f.since().as_u64(), f.until().as_u64(), aj
    )
}

/// db script: commands separated by '|' (or newlines when read from @file):
///   store <id32hex> <pubkey32hex> <kind> <created_at> <contenthex|-> [tag;tag;...]   tag = hexstr,hexstr,...
///   remove <idhex> | get <idhex> | has <idhex> | is_deleted <idhex> | get_offset <n>
///   naddr_deleted <kind> <authorhex> <dhex|-> | find_repl <authorhex> <kind> | find_param <kind> <authorhex> <dhex|->
///   rebuild | reopen | stats | query <filter-json-hex>
fn db_script(script: &str) -> String {
    use pocket_db::Store;
    use pocket_types::{Id, Kind, OwnedEvent, OwnedTags, Pubkey, Sig, Time};
    let dir = std::env::temp_dir().join(format!("pocket-replay-db-{}", std::process::id()));
    let _ = std::fs::remove_dir_all(&dir);
    std::fs::create_dir_all(&dir).unwrap();
    let mut store = Some(Store::new(&dir, vec![]).unwrap());
    let mut out: Vec<String> = Vec::new();
    let h32 = |s: &str| -> [u8; 32] { let v = unhex(s); let mut a = [0u8; 32]; a.copy_from_slice(&v); a };
    let hd = |s: &str| -> Vec<u8> { if s == "-" { vec![] } else { unhex(s) } };
    for cmd in script.split(|c| c == '|' || c == '\n') {
        let w: Vec<&str> = cmd.split_whitespace().collect();
        if w.is_empty() { continue; }
        let st = store.as_ref().unwrap();
        let res = match w[0] {
            "store" => {
                let tags: Vec<Vec<String>> = if w.len() > 6 {
                    w[6].split(';').filter(|t| !t.is_empty()).map(|t| t.split(',').map(|x| String::from_utf8_lossy(&hd(x)).to_string()).collect()).collect()
                } else { vec![] };
                let otags = OwnedTags::new(&tags).unwrap();
                let ev = OwnedEvent::new(Id::from_bytes(h32(w[1])), Kind::from_u16(w[3].parse().unwrap()), Pubkey::from_bytes(h32(w[2])),
                    Sig::from_bytes([0u8; 64]), &otags, Time::from_u64(w[4].parse().unwrap()), &hd(w[5])).unwrap();
                match st.store_event(&ev) { Ok(o) => format!("\"ok:{}\"", o), Err(e) => format!("\"err:{}\"", e.inner) }
            }
            "remove" => match st.remove_event(Id::from_bytes(h32(w[1]))) { Ok(()) => "\"ok\"".into(), Err(e) => format!("\"err:{}\"", e.inner) },
            "get" => match st.get_event_by_id(Id::from_bytes(h32(w[1]))) { Ok(Some(e)) => format!("\"some:{}\"", hex(e.as_bytes())), Ok(None) => "\"none\"".into(), Err(e) => format!("\"err:{}\"", e.inner) },
            "has" => match st.has_event(Id::from_bytes(h32(w[1]))) { Ok(b) => format!("{}", b), Err(e) => format!("\"err:{}\"", e.inner) },
            "is_deleted" => match st.event_is_deleted(Id::from_bytes(h32(w[1]))) { Ok(b) => format!("{}", b), Err(e) => format!("\"err:{}\"", e.inner) },
            "get_offset" => match st.get_event_by_offset(w[1].parse().unwrap()) { Ok(e) => format!("\"some:{}\"", hex(e.as_bytes())), Err(e) => format!("\"err:{}\"", e.inner) },
            "naddr_deleted" => {
                let a = Addr { kind: Kind::from_u16(w[1].parse().unwrap()), author: Pubkey::from_bytes(h32(w[2])), d: hd(w[3]) };
                match st.naddr_is_deleted_asof(&a) { Ok(Some(t)) => format!("{}", t.as_u64()), Ok(None) => "null".into(), Err(e) => format!("\"err:{}\"", e.inner) }
            }
            "find_repl" => match st.find_replaceable_event(Pubkey::from_bytes(h32(w[1])), Kind::from_u16(w[2].parse().unwrap())) {
                Ok(Some(e)) => format!("\"some:{}\"", hex(e.id().as_slice())), Ok(None) => "\"none\"".into(), Err(e) => format!("\"err:{}\"", e.inner) },
            "find_param" => {
                let a = Addr { kind: Kind::from_u16(w[1].parse().unwrap()), author: Pubkey::from_bytes(h32(w[2])), d: hd(w[3]) };
                match st.find_parameterized_replaceable_event(&a) { Ok(Some(e)) => format!("\"some:{}\"", hex(e.id().as_slice())), Ok(None) => "\"none\"".into(), Err(e) => format!("\"err:{}\"", e.inner) }
            }
            "stats" => match st.stats() { Ok(s) => format!("{{\"event_bytes\":{},\"i\":{},\"ci\":{},\"tc\":{},\"ac\":{},\"akc\":{},\"atc\":{},\"ktc\":{},\"deleted\":{},\"naddr_deleted\":{}}}",
                s.event_bytes, s.index_stats.i_index_entries, s.index_stats.ci_index_entries, s.index_stats.tc_index_entries, s.index_stats.ac_index_entries,
                s.index_stats.akc_index_entries, s.index_stats.atc_index_entries, s.index_stats.ktc_index_entries, s.index_stats.deleted_index_entries, s.index_stats.deleted_naddr_index_entries),
                Err(e) => format!("\"err:{}\"", e.inner) },
            "query" => {
                let fj = unhex(w[1]);
                let mut buf = vec![0u8; 65536];
                match Filter::from_json(&fj, &mut buf) {
                    Ok((_, _, f)) => match st.find_events(f, true, 0, 0, |_| pocket_db::ScreenResult::Match) {
                        Ok((evs, _)) => format!("[{}]", evs.iter().map(|e| format!("\"{}\"", hex(e.id().as_slice()))).collect::<Vec<_>>().join(",")),
                        Err(e) => format!("\"err:{}\"", e.inner) },
                    Err(e) => format!("\"filter-err:{}\"", e.inner),
                }
            }
            "rebuild" => { let s0 = store.take().unwrap(); match unsafe { s0.rebuild() } { Ok(s1) => { store = Some(s1); "\"ok\"".into() } Err(e) => { let m = format!("\"err:{}\"", e.inner); store = Some(Store::new(&dir, vec![]).unwrap()); m } } }
            "reopen" => { drop(store.take()); store = Some(Store::new(&dir, vec![]).unwrap()); "\"ok\"".into() }
            other => format!("\"unknown command {}\"", other),
        };
        out.push(res);
    }
    drop(store);
    let _ = std::fs::remove_dir_all(&dir);
    format!("{{\"outcome\":\"ok\",\"results\":[{}]}}", out.join(","))
}

fn run(op: &str, args: &[String]) -> String {
    match op {
        "tags_from_parts_long" => {
            // one tag ["t", "x"*n]
            let n: usize = args[0].parse().unwrap();
            let v = "x".repeat(n);
            match pocket_types::OwnedTags::new(&[vec!["t", &v]]) {
                Ok(t) => { let got = t.get_string(0, 1).map(|s| s.len()); format!("{{\"outcome\":\"ok\",\"bytes_len\":{},\"string_len_read_back\":{:?}}}", t.as_bytes().len(), got) }
                Err(e) => format!("{{\"outcome\":\"err\",\"error\":{}}}", jstr(&format!("{}", e.inner))),
            }
        }
        "filter_from_parts_many_ids" => {
            let n: usize = args[0].parse().unwrap();
            let ids: Vec<Id> = (0..n).map(|i| { let mut a = [0u8; 32]; a[0] = (i & 255) as u8; a[1] = ((i >> 8) & 255) as u8; a[2] = (i >> 16) as u8; Id::from_bytes(a) }).collect();
            let tags = pocket_types::OwnedTags::empty();
            match pocket_types::OwnedFilter::new(&ids, &[], &[], &tags, None, None, None) {
                Ok(f) => format!("{{\"outcome\":\"ok\",\"num_ids\":{},\"given\":{}}}", f.num_ids(), n),
                Err(e) => format!("{{\"outcome\":\"err\",\"error\":{}}}", jstr(&format!("{}", e.inner))),
            }
        }
        "filter_parts_match" => {
            // args: <filter tags> <event tags>; tags separated by ';', strings by ','; "@" is a tag with no strings
            use pocket_types::{Kind, OwnedEvent, OwnedFilter, OwnedTags, Pubkey, Sig, Time};
            let parse = |a: &str| -> Vec<Vec<String>> {
                a.split(';').filter(|t| !t.is_empty()).map(|t| if t == "@" { vec![] } else { t.split(',').map(|x| x.to_string()).collect() }).collect()
            };
            let ftags = OwnedTags::new(&parse(&args[0])).unwrap();
            let etags = OwnedTags::new(&parse(&args[1])).unwrap();
            let ev = OwnedEvent::new(Id::from_bytes([1u8; 32]), Kind::from_u16(1), Pubkey::from_bytes([2u8; 32]), Sig::from_bytes([0u8; 64]),
                &etags, Time::from_u64(100), b"").unwrap();
            match OwnedFilter::new(&[], &[], &[], &ftags, None, None, None) {
                Ok(f) => match f.event_matches(&ev) {
                    Ok(b) => format!("{{\"outcome\":\"ok\",\"matches\":{},\"filter_tags\":{}}}", b, f.tags().map(|t| tags_json(t)).unwrap_or_else(|_| "null".into())),
                    Err(e) => format!("{{\"outcome\":\"match-err\",\"error\":{}}}", jstr(&format!("{}", e.inner))),
                },
                Err(e) => format!("{{\"outcome\":\"err\",\"error\":{}}}", jstr(&format!("{}", e.inner))),
            }
        }
        "db_script" => {
            let s = if let Some(p) = args[0].strip_prefix('@') { std::fs::read_to_string(p).unwrap() } else { args[0].clone() };
            db_script(&s)
        }
        "event_from_json" => {
            let input = unhex(&args[0]);
            let buflen: usize = args[1].parse().unwrap();
            let fill: u8 = args.get(2).map(|s| s.parse().unwrap()).unwrap_or(0);
            let mut buf = vec![fill; buflen];
            match Event::from_json(&input, &mut buf) {
                Ok((n, e)) => event_obs(e, n),
                Err(e) => format!("{{\"outcome\":\"err\",\"error\":{}}}", jstr(&format!("{}", e.inner))),
            }
        }
        "filter_from_json" => {
            let input = unhex(&args[0]);
            let buflen: usize = args[1].parse().unwrap();
            let fill: u8 = args.get(2).map(|s| s.parse().unwrap()).unwrap_or(0);
            let mut buf = vec![fill; buflen];
            match Filter::from_json(&input, &mut buf) {
                Ok((n, _m, f)) => filter_obs(f, n),
                Err(e) => format!("{{\"outcome\":\"err\",\"error\":{}}}", jstr(&format!("{}", e.inner))),
            }
        }
        "tags_from_json" => {
            let input = unhex(&args[0]);
            let buflen: usize = args[1].parse().unwrap();
            let mut buf = vec![0u8; buflen];
            match Tags::from_json(&input, &mut buf) {
                Ok((n, t)) => format!("{{\"outcome\":\"ok\",\"consumed\":{},\"bytes\":\"{}\",\"tags\":{},\"as_json\":\"{}\"}}", n, hex(t.as_bytes()), tags_json(t), hex(&t.as_json())),
                Err(e) => format!("{{\"outcome\":\"err\",\"error\":{}}}", jstr(&format!("{}", e.inner))),
            }
        }
        "json_unescape" => {
            let input = unhex(&args[0]);
            let buflen: usize = args[1].parse().unwrap();
            let mut buf = vec![0u8; buflen];
            match pocket_types::json::json_unescape(&input, &mut buf) {
                Ok((i, o)) => format!("{{\"outcome\":\"ok\",\"consumed\":{},\"out\":\"{}\"}}", i, hex(&buf[..o])),
                Err(e) => format!("{{\"outcome\":\"err\",\"error\":{}}}", jstr(&format!("{}", e.inner))),
            }
        }
        "id_read_hex" => {
            let input = unhex(&args[0]);
            match Id::read_hex(&input) {
                Ok(id) => format!("{{\"outcome\":\"ok\",\"id\":\"{}\"}}", hex(id.as_slice())),
                Err(e) => format!("{{\"outcome\":\"err\",\"error\":{}}}", jstr(&format!("{}", e.inner))),
            }
        }
        "hll_estimate_from_hex" => {
            let input = unhex(&args[0]);
            let s = String::from_utf8_lossy(&input).to_string();
            match Hll8::from_hex_string(&s) {
                Ok(h) => format!("{{\"outcome\":\"ok\",\"estimate\":{},\"hex\":{}}}", h.estimate_count(), jstr(&h.to_hex_string())),
                Err(e) => format!("{{\"outcome\":\"err\",\"error\":{}}}", jstr(&format!("{}", e.inner))),
            }
        }
        "addr_try_from_bytes" => {
            let input = unhex(&args[0]);
            match Addr::try_from_bytes(&input) {
                Ok(a) => format!("{{\"outcome\":\"ok\",\"kind\":{},\"author\":\"{}\",\"d\":\"{}\"}}", a.kind.as_u16(), hex(a.author.as_slice()), hex(&a.d)),
                Err(e) => format!("{{\"outcome\":\"err\",\"error\":{}}}", jstr(&format!("{}", e.inner))),
            }
        }
        _ => format!("{{\"outcome\":\"usage\",\"error\":\"unknown op {}\"}}", op),
    }
}

fn main() {
    let args: Vec<String> = std::env::args().collect();
    if args.len() < 2 {
        eprintln!("usage: pocket-replay <op> <args..>");
        std::process::exit(2);
    }
    let op = args[1].clone();
    let rest: Vec<String> = args[2..].to_vec();
    panic::set_hook(Box::new(|_| {}));
    let r = panic::catch_unwind(move || run(&op, &rest));
    match r {
        Ok(s) => println!("{}", s),
        Err(p) => {
            let msg = if let Some(s) = p.downcast_ref::<&str>() { s.to_string() } else if let Some(s) = p.downcast_ref::<String>() { s.clone() } else { "?".into() };
            println!("{{\"outcome\":\"panic\",\"message\":{}}}", jstr(&msg));
        }
    }
}
