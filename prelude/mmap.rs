// ---- prelude/mmap.rs: mmap-append 0.2, std::fs::File, AtomicUsize, io::Error by assumed contract (TRUSTED) ----
pub struct IoError { }
pub enum IoErrorKind { Other, NotFound, PermissionDenied, Unknown }
impl IoError {
    pub uninterp spec fn spec_kind(&self) -> IoErrorKind;
    pub uninterp spec fn out_of_space(&self) -> bool;
    #[verifier::external_body]
    pub fn kind(&self) -> (r: IoErrorKind) ensures r == self.spec_kind() { unimplemented!() }
    // R20: `e.to_string() == "Out of space"` (the message mmap-append 0.2 gives its out-of-space error)
    #[verifier::external_body]
    pub fn v_is_out_of_space(&self) -> (r: bool) ensures r == self.out_of_space() { unimplemented!() }
    #[verifier::external_body]
    pub fn other(e: Error) -> (r: IoError) { unimplemented!() }
}
impl From<IoError> for Error { #[verifier::external_body] fn from(e: IoError) -> Error { unimplemented!() } }
#[verifier::external_body]
pub fn v_kind_is_other(k: IoErrorKind) -> (r: bool) ensures r == (k is Other) { unimplemented!() }

pub struct File { }
impl File {
    #[verifier::external_body]
    pub fn set_len(&self, n: u64, Tracked(w): Tracked<&mut World>) -> (r: Result<(), IoError>)
        ensures
            final(w).committed == old(w).committed, final(w).map == old(w).map, final(w).map_end == old(w).map_end,
            final(w).events == old(w).events, final(w).flc == old(w).flc,
            r is Ok ==> final(w).file_len == n,
            r is Err ==> final(w).file_len == old(w).file_len,
    { unimplemented!() }
}
pub struct AtomicUsize { }
pub mod atomic_ordering { pub enum Ordering { Relaxed, SeqCst } }
impl AtomicUsize {
    #[verifier::external_body]
    pub fn load(&self, o: atomic_ordering::Ordering, Tracked(w): Tracked<&World>) -> (r: usize)
        ensures r == w.flc
    { unimplemented!() }
    #[verifier::external_body]
    pub fn store(&self, v: usize, o: atomic_ordering::Ordering, Tracked(w): Tracked<&mut World>)
        ensures final(w).flc == v, final(w).committed == old(w).committed, final(w).map == old(w).map,
            final(w).map_end == old(w).map_end, final(w).events == old(w).events, final(w).file_len == old(w).file_len,
    { unimplemented!() }
}
pub struct MmapAppend { }
impl MmapAppend {
    #[verifier::external_body]
    pub fn get_end(&self, Tracked(w): Tracked<&World>) -> (r: usize)
        ensures r == w.map_end
    { unimplemented!() }
    // Deref<Target=[u8]>: the bytes up to the end marker
    #[verifier::external_body]
    pub fn v_slice_from(&self, a: usize, Tracked(w): Tracked<&World>) -> (r: &[u8])
        requires a <= w.map_end
        ensures r@ == w.map.subrange(a as int, w.map_end)
    { unimplemented!() }
    // append: fails with "Out of space" iff end + max_len exceeds the mapping; otherwise hands the writer
    // map[end..end+max_len], then advances the end marker by what the writer reports.  `bytes`: what the writer
    // writes and reports (None = reports max_len, contents unspecified).  Never touches bytes below the old end.
    #[verifier::external_body]
    pub fn append<F: FnOnce(&mut [u8]) -> Result<usize, IoError>>(&self, max_len: usize, writer: F,
            Ghost(bytes): Ghost<Option<Seq<u8>>>, Tracked(w): Tracked<&mut World>) -> (r: Result<usize, IoError>)
        requires bytes is Some ==> bytes->Some_0.len() <= max_len,
        ensures
            final(w).committed == old(w).committed,
            final(w).file_len == old(w).file_len, final(w).flc == old(w).flc,
            final(w).map.len() == old(w).map.len(),
            forall|i: int| 0 <= i < old(w).map_end ==> #[trigger] final(w).map[i] == old(w).map[i],
            // ghost bookkeeping: a successfully appended record is entered in the directory of stored events
            final(w).events == (if r is Ok && bytes is Some { old(w).events.insert(old(w).map_end, bytes->Some_0) } else { old(w).events }),
            old(w).map_end + max_len > old(w).map.len() ==> r is Err && r->Err_0.spec_kind() is Other && r->Err_0.out_of_space()
                && final(w).map_end == old(w).map_end,
            r is Err ==> final(w).map_end == old(w).map_end,
            r is Err && old(w).map_end + max_len <= old(w).map.len() ==> !(r->Err_0.spec_kind() is Other && r->Err_0.out_of_space()),
            r is Ok ==> r->Ok_0 == old(w).map_end && old(w).map_end + max_len <= old(w).map.len()
                && final(w).map_end == old(w).map_end + (match bytes { Some(b) => b.len() as int, None => max_len as int })
                && (bytes is Some ==> forall|i: int| 0 <= i < bytes->Some_0.len() ==> #[trigger] final(w).map[old(w).map_end + i] == bytes->Some_0[i]),
    { unimplemented!() }
    // remap to new_len bytes (the caller must have grown the file first); contents preserved
    #[verifier::external_body]
    pub fn resize(&self, new_len: usize, Tracked(w): Tracked<&mut World>) -> (r: Result<(), IoError>)
        requires new_len <= old(w).file_len, new_len >= old(w).map.len(),
        ensures
            final(w).committed == old(w).committed, final(w).events == old(w).events, final(w).map_end == old(w).map_end,
            final(w).file_len == old(w).file_len, final(w).flc == old(w).flc,
            r is Err ==> final(w).map == old(w).map,
            // a mapping never exceeds the user address space
            r is Ok ==> new_len <= 0x7fff_ffff_0000_0000
                && final(w).map.len() == new_len && (forall|i: int| 0 <= i < old(w).map.len() ==> #[trigger] final(w).map[i] == old(w).map[i]),
    { unimplemented!() }
}

// ---- opening the file (std::fs, std::mem, mmap-append::new) ----
pub struct OpenOptions { }
pub struct Metadata { pub len: Ghost<int> }
pub struct Path { }
impl OpenOptions {
    #[verifier::external_body] pub fn new() -> OpenOptions { unimplemented!() }
    #[verifier::external_body] pub fn read(self, b: bool) -> OpenOptions { unimplemented!() }
    #[verifier::external_body] pub fn write(self, b: bool) -> OpenOptions { unimplemented!() }
    #[verifier::external_body] pub fn truncate(self, b: bool) -> OpenOptions { unimplemented!() }
    #[verifier::external_body] pub fn create(self, b: bool) -> OpenOptions { unimplemented!() }
    // opening (truncate(false)) does not change the file's length
    #[verifier::external_body] pub fn open<P>(self, p: P) -> (r: Result<File, IoError>) { unimplemented!() }
}
impl File {
    #[verifier::external_body]
    pub fn metadata(&self, Tracked(w): Tracked<&World>) -> (r: Result<Metadata, IoError>)
        ensures r is Ok ==> r->Ok_0.len@ == w.file_len
    { unimplemented!() }
}
impl Metadata {
    #[verifier::external_body]
    pub fn len(&self) -> (r: u64) ensures r == self.len@ { unimplemented!() }
}
pub mod mem { use vstd::prelude::*; verus! {
    #[verifier::external_body] pub fn size_of_usize() -> (r: usize) ensures r == 8 { unimplemented!() }
} }
impl MmapAppend {
    // maps the whole file; with `initialize` it writes the end marker 8
    #[verifier::external_body]
    pub unsafe fn new(file: &File, initialize: bool, Tracked(w): Tracked<&mut World>) -> (r: Result<MmapAppend, IoError>)
        ensures
            final(w).committed == old(w).committed, final(w).events == old(w).events, final(w).file_len == old(w).file_len,
            final(w).flc == old(w).flc,
            r is Ok ==> final(w).map.len() == old(w).file_len && old(w).file_len >= 8 && old(w).file_len <= 0x7fff_ffff_0000_0000,
            r is Ok && initialize ==> final(w).map_end == 8,
    { unimplemented!() }
}
impl AtomicUsize {
    #[verifier::external_body]
    pub fn new(v: usize, Tracked(w): Tracked<&mut World>) -> (r: AtomicUsize)
        ensures final(w).flc == v, final(w).committed == old(w).committed, final(w).map == old(w).map,
            final(w).map_end == old(w).map_end, final(w).events == old(w).events, final(w).file_len == old(w).file_len,
    { unimplemented!() }
}
