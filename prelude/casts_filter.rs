impl Filter { #[verifier::external_body] pub fn v_from_slice(s: &[u8]) -> (r: &Filter) ensures r.0@ == s@ { unimplemented!() } }
