// ---- prelude/store_env.rs: stand-ins for the parts of Store's environment that are not under proof in this unit ----
pub struct EventStore { }
pub struct PathBuf { }
impl Lmdb {
    // a write transaction starts from the committed state (LMDB single-writer: no other writer can interleave)
    #[verifier::external_body]
    pub fn write_txn(&self, Tracked(w): Tracked<&World>) -> (r: Result<RwTxn<'_>, Error>)
        ensures r is Ok ==> r->Ok_0.base@ == w.committed && r->Ok_0.cur@ == w.committed
    { unimplemented!() }
    // a read transaction is a snapshot of the committed state (NO_TLS: independent of any open write transaction)
    #[verifier::external_body]
    pub fn read_txn(&self, Tracked(w): Tracked<&World>) -> (r: Result<RoTxn<'_>, Error>)
        ensures r is Ok ==> r->Ok_0.base@ == w.committed && r->Ok_0.cur@ == w.committed
    { unimplemented!() }
}
