// ---- `<sha256::Hash as AsRef<[u8]>>::as_ref`: the 32 digest bytes (TRUSTED, secp256k1 stand-in; see crypto.rs)
impl AsRef<[u8]> for secp256k1::hashes::sha256::Hash { #[verifier::external_body] fn as_ref(&self) -> (r: &[u8]) ensures r@ == self.bytes@ { unimplemented!() } }
