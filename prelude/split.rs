// ---- prelude/split.rs: <[u8]>::splitn / split with a single-byte separator predicate (TRUSTED std) -- target of R30
pub open spec fn first_sep(s: Seq<u8>, sep: u8) -> int
    decreases s.len()
{
    if s.len() == 0 { 0 } else if s[0] == sep { 0 } else { 1 + first_sep(s.subrange(1, s.len() as int), sep) }
}
pub proof fn lemma_first_sep(s: Seq<u8>, sep: u8)
    ensures 0 <= first_sep(s, sep) <= s.len(),
        forall|i: int| 0 <= i < first_sep(s, sep) ==> s[i] != sep,
        first_sep(s, sep) < s.len() ==> s[first_sep(s, sep)] == sep,
    decreases s.len()
{
    if s.len() > 0 && s[0] != sep {
        let t = s.subrange(1, s.len() as int);
        lemma_first_sep(t, sep);
        assert forall|i: int| 0 <= i < first_sep(s, sep) implies s[i] != sep by { if i > 0 { assert(s[i] == t[i - 1]); } }
        if first_sep(s, sep) < s.len() { assert(s[first_sep(s, sep)] == t[first_sep(t, sep)]); }
    }
}
// iterator state: the unconsumed remainder, how many more pieces may be produced (None = unlimited), finished?
pub struct VSplit<'a> { pub rem: Ghost<Seq<u8>>, pub left: Ghost<Option<int>>, pub done: Ghost<bool>, pub sep: Ghost<u8>, pub _p: std::marker::PhantomData<&'a [u8]> }
#[verifier::external_body]
pub fn v_splitn<'a>(s: &'a [u8], n: usize, sep: u8) -> (r: VSplit<'a>)
    ensures r.rem@ == s@, r.left@ == Some(n as int), r.done@ == (n == 0), r.sep@ == sep
{ unimplemented!() }
#[verifier::external_body]
pub fn v_split<'a>(s: &'a [u8], sep: u8) -> (r: VSplit<'a>)
    ensures r.rem@ == s@, r.left@ == None::<int>, !r.done@, r.sep@ == sep
{ unimplemented!() }
impl<'a> VSplit<'a> {
    #[verifier::external_body]
    pub fn next(&mut self) -> (r: Option<&'a [u8]>)
        ensures
            final(self).sep == old(self).sep,
            old(self).done@ ==> r is None && final(self).done@,
            // last permitted piece, or no separator left: the whole remainder
            !old(self).done@ && (old(self).left@ == Some(1int) || first_sep(old(self).rem@, old(self).sep@) == old(self).rem@.len()) ==>
                r is Some && r->Some_0@ == old(self).rem@ && final(self).done@,
            !old(self).done@ && !(old(self).left@ == Some(1int) || first_sep(old(self).rem@, old(self).sep@) == old(self).rem@.len()) ==>
                r is Some && r->Some_0@ == old(self).rem@.subrange(0, first_sep(old(self).rem@, old(self).sep@))
                && final(self).rem@ == old(self).rem@.subrange(first_sep(old(self).rem@, old(self).sep@) + 1, old(self).rem@.len() as int)
                && !final(self).done@
                && final(self).left@ == (match old(self).left@ { Some(n) => Some(n - 1), None => None::<int> }),
    { unimplemented!() }
}
pub struct Utf8Error { }
impl From<Utf8Error> for Error { #[verifier::external_body] fn from(e: Utf8Error) -> Error { unimplemented!() } }
#[verifier::external_body]
pub fn v_from_utf8(s: &[u8]) -> (r: Result<&str, Utf8Error>)
    ensures r is Ok ==> str_bytes(r->Ok_0) == s@
{ unimplemented!() }
