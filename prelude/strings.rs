// ---- prelude/strings.rs: String <-> bytes (TRUSTED std) -- target of R28
use vstd::string::StringSliceAdditionalSpecFns;
pub open spec fn str_bytes(s: &str) -> Seq<u8> { s.spec_bytes() }
// R28: `unsafe { String::from_utf8_unchecked(V) }` -> v_string_from_utf8_unchecked(V): the String holds exactly those bytes
// bytes held by an owned String (std: `&String` derefs to the `&str` with these bytes)
pub uninterp spec fn string_bytes(s: String) -> Seq<u8>;
#[verifier::external_body]
pub fn v_string_from_utf8_unchecked(v: Vec<u8>) -> (r: String)
    ensures string_bytes(r) == v@
{ unsafe { String::from_utf8_unchecked(v) } }
