// ---- prelude/asref.rs: `AsRef` on generic part lists (TRUSTED std) ----
// Assumption: `AsRef::as_ref` is a function of its receiver (two calls on the same value give the same referent).
// Every std impl used by callers of from_parts (Vec<U> -> [U], [U; N] -> [U], String/&str -> str) satisfies it.
use core::marker::PointeeSized;
use vstd::string::StringSliceAdditionalSpecFns;
pub uninterp spec fn as_ref_view<A: PointeeSized, B: PointeeSized>(a: &A) -> &B;
#[verifier::external_trait_specification]
pub trait ExAsRef<T: PointeeSized>: PointeeSized {
    type ExternalTraitSpecificationFor: AsRef<T>;
    fn as_ref(&self) -> (r: &T)
        ensures r == as_ref_view::<Self, T>(self);
}
// the byte strings a generic part list denotes: parts[t][s] as bytes
pub open spec fn part_str<U: AsRef<str>>(u: &U) -> Seq<u8> { as_ref_view::<U, str>(u).spec_bytes() }
pub open spec fn part_tag<T: AsRef<[U]>, U: AsRef<str>>(t: &T) -> Seq<Seq<u8>> {
    Seq::new(as_ref_view::<T, [U]>(t)@.len(), |s: int| part_str::<U>(&as_ref_view::<T, [U]>(t)@[s]))
}
pub open spec fn parts_view<T: AsRef<[U]>, U: AsRef<str>>(parts: Seq<T>) -> Seq<Seq<Seq<u8>>> {
    Seq::new(parts.len(), |t: int| part_tag::<T, U>(&parts[t]))
}
