// ---- prelude/casts.rs: the three `from_inner` pointer casts &[u8] -> &Event/&Tags/&Filter (TRUSTED unsafe code:
// a #[repr]-less newtype around [u8] reinterpreted in place) -- target of rewrite R24
impl Event { #[verifier::external_body] pub fn v_from_slice(s: &[u8]) -> (r: &Event) ensures r.0@ == s@ { unimplemented!() } }
impl Tags { #[verifier::external_body] pub fn v_from_slice(s: &[u8]) -> (r: &Tags) ensures r.0@ == s@ { unimplemented!() } }
