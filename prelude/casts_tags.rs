// ---- prelude/casts_tags.rs: the `from_inner` pointer cast &[u8] -> &Tags alone (same TRUSTED contract as casts.rs; R24)
impl Tags { #[verifier::external_body] pub fn v_from_slice(s: &[u8]) -> (r: &Tags) ensures r.0@ == s@ { unimplemented!() } }
