// ---- prelude/vec.rs: Vec<u8> growth and formatting (TRUSTED std contracts; targets of rewrites R8, R11, R15) ----
pub trait VBytesSrc { spec fn bytes(&self) -> Seq<u8>; }
impl<'a> VBytesSrc for &'a [u8] { open spec fn bytes(&self) -> Seq<u8> { (*self)@ } }
impl<'a, const N: usize> VBytesSrc for &'a [u8; N] { open spec fn bytes(&self) -> Seq<u8> { (*self)@ } }
impl<const N: usize> VBytesSrc for [u8; N] { open spec fn bytes(&self) -> Seq<u8> { self@ } }
impl<'a> VBytesSrc for &'a Vec<u8> { open spec fn bytes(&self) -> Seq<u8> { (*self)@ } }
impl VBytesSrc for Vec<u8> { open spec fn bytes(&self) -> Seq<u8> { self@ } }
pub struct VRepeatTake { pub x: u8, pub n: usize }
impl VBytesSrc for VRepeatTake { open spec fn bytes(&self) -> Seq<u8> { Seq::new(self.n as nat, |i: int| self.x) } }
// R11: core::iter::repeat(X).take(N)
pub fn v_repeat_take(x: u8, n: usize) -> (r: VRepeatTake) ensures r.x == x, r.n == n { VRepeatTake { x, n } }

// R15: Vec::extend appends the elements the source yields, in order.
#[verifier::external_body]
pub fn v_extend<S: VBytesSrc>(v: &mut Vec<u8>, s: S)
    ensures final(v)@ == old(v)@ + s.bytes()
{ unimplemented!() }

// R8: format! pieces.  Dec = Display of an unsigned integer (decimal, no leading zeros);
// Hex4 = {:04x} (lower-case hex, at least 4 digits, zero padded).
pub enum VPiece<'a> { Lit(&'a [u8]), Dec(u64), Hex4(u32) }
pub open spec fn dec_digits(n: nat) -> Seq<u8>
    decreases n
{
    if n < 10 { seq![(48 + n) as u8] } else { dec_digits(n / 10) + seq![(48 + n % 10) as u8] }
}
pub open spec fn hex_digit(d: nat) -> u8 { if d < 10 { (48 + d) as u8 } else { (87 + d) as u8 } }
pub open spec fn hex_digits(n: nat) -> Seq<u8>
    decreases n
{
    if n < 16 { seq![hex_digit(n)] } else { hex_digits(n / 16) + seq![hex_digit(n % 16)] }
}
pub open spec fn hex4(n: nat) -> Seq<u8> {
    if n < 0x10 { seq![48u8, 48u8, 48u8] + hex_digits(n) }
    else if n < 0x100 { seq![48u8, 48u8] + hex_digits(n) }
    else if n < 0x1000 { seq![48u8] + hex_digits(n) }
    else { hex_digits(n) }
}
pub open spec fn piece_bytes(p: VPiece) -> Seq<u8> {
    match p { VPiece::Lit(b) => b@, VPiece::Dec(n) => dec_digits(n as nat), VPiece::Hex4(n) => hex4(n as nat) }
}
pub open spec fn pieces_bytes(ps: Seq<VPiece>) -> Seq<u8>
    decreases ps.len()
{
    if ps.len() == 0 { seq![] } else { pieces_bytes(ps.drop_last()) + piece_bytes(ps.last()) }
}
#[verifier::external_body]
pub fn v_format(ps: &[VPiece]) -> (r: Vec<u8>)
    ensures r@ == pieces_bytes(ps@)
{ unimplemented!() }

// R18: std::cmp::min on usize
pub fn v_min_usize(a: usize, b: usize) -> (r: usize) ensures r == (if a <= b { a } else { b }) { if a <= b { a } else { b } }

pub assume_specification<T, E> [ Option::<Result<T, E>>::transpose ] (o: Option<Result<T, E>>) -> (r: Result<Option<T>, E>)
    ensures r == (match o { Some(Ok(x)) => Ok::<Option<T>, E>(Some(x)), Some(Err(e)) => Err::<Option<T>, E>(e), None => Ok::<Option<T>, E>(None) });

pub assume_specification<T: Clone> [ <[T] as std::borrow::ToOwned>::to_owned ] (s: &[T]) -> (r: Vec<T>)
    ensures r@ == s@;

// Rust guarantee: a Vec never holds more than isize::MAX bytes
#[verifier::external_body]
pub proof fn axiom_vec_max(v: &Vec<u8>) ensures v@.len() <= 0x7fff_ffff_ffff_ffff { }

pub assume_specification<T: Clone> [ <[T]>::to_vec ] (s: &[T]) -> (r: Vec<T>)
    ensures r@ == s@;
pub assume_specification<T, E> [ Result::<T, E>::unwrap_or ] (r: Result<T, E>, default: T) -> (v: T)
    ensures v == (match r { Ok(x) => x, Err(_) => default });
