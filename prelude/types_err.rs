// ---- prelude/types_err.rs: stand-in for pocket-types/src/error.rs (TRUSTED ENVIRONMENT) ----
// Only the shape of the error types; error *values* are not specified (no property mentions them).
pub mod error {
    use vstd::prelude::*;
    pub struct Error { pub inner: InnerError }
    impl std::fmt::Debug for Error { #[verifier::external_body] fn fmt(&self, f: &mut std::fmt::Formatter<'_>) -> std::fmt::Result { Ok(()) } }
    pub enum InnerError {
        BadEventId,
        BadHexInput,
        BufferTooSmall(usize),
        EndOfInput,
        General(String),
        InvalidAddr,
        JsonBad(&'static str, usize),
        JsonBadCharacter(char, usize, char),
        JsonBadEvent(&'static str, usize),
        JsonBadFilter(&'static str, usize),
        JsonBadStringChar(u32),
        JsonEscape,
        JsonEscapeSurrogate,
        OutOfRange(usize),
        Utf8Error,
    }
    impl From<InnerError> for Error {
        #[verifier::external_body]
        fn from(e: InnerError) -> Error { Error { inner: e } }
    }
}
use crate::error::{Error, InnerError};
