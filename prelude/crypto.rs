// ---- prelude/crypto.rs: stand-in for the secp256k1 crate (TRUSTED ENVIRONMENT; cryptographic assumptions) ----
// SHA-256 and BIP-340 are uninterpreted: nothing is assumed about them except that they are functions of their byte
// inputs.  Contracts follow the secp256k1 0.29 documentation: `from_slice` constructors fail exactly on inputs the
// type cannot hold, `Message::from_digest_slice` fails exactly when the digest is not 32 bytes, `verify` is Ok exactly
// when the signature verifies.
pub uninterp spec fn sha256(m: Seq<u8>) -> Seq<u8>;
pub uninterp spec fn xonly_valid(pk: Seq<u8>) -> bool;                    // 32 bytes that are the x coordinate of a curve point
pub uninterp spec fn sig_parses(sig: Seq<u8>) -> bool;                    // what schnorr::Signature::from_slice accepts
pub uninterp spec fn schnorr_verifies(sig: Seq<u8>, msg: Seq<u8>, pk: Seq<u8>) -> bool;
// BIP-340 validity of a signature given as raw bytes, as Event::verify has to decide it
pub open spec fn bip340_valid(sig: Seq<u8>, msg: Seq<u8>, pk: Seq<u8>) -> bool {
    xonly_valid(pk) && sig_parses(sig) && schnorr_verifies(sig, msg, pk)
}
pub mod secp256k1 {
    use vstd::prelude::*;
    use super::*;
    pub struct Error { pub code: u8 }
    pub struct Message { pub digest: Ghost<Seq<u8>> }
    pub struct XOnlyPublicKey { pub bytes: Ghost<Seq<u8>> }
    pub struct Parity { pub odd: bool }
    // a key pair; signing may use auxiliary randomness, so the signature is not specified as a function of (key, message):
    // only that it is a well-formed signature that verifies under the pair's x-only public key (correctness of BIP-340)
    pub struct Keypair { pub secret: Ghost<Seq<u8>> }
    pub uninterp spec fn keypair_xonly(k: Keypair) -> Seq<u8>;
    impl Keypair {
        #[verifier::external_body]
        pub fn x_only_public_key(&self) -> (r: (XOnlyPublicKey, Parity))
            ensures r.0.bytes@ == keypair_xonly(*self), r.0.bytes@.len() == 32, xonly_valid(r.0.bytes@)
        { unimplemented!() }
        #[verifier::external_body]
        pub fn sign_schnorr(&self, msg: Message) -> (r: schnorr::Signature)
            ensures r.bytes@.len() == 64, sig_parses(r.bytes@), schnorr_verifies(r.bytes@, msg.digest@, keypair_xonly(*self))
        { unimplemented!() }
    }
    impl Message {
        #[verifier::external_body]
        pub fn from_digest(digest: [u8; 32]) -> (r: Message)
            ensures r.digest@ == digest@
        { unimplemented!() }
        #[verifier::external_body]
        pub fn from_digest_slice(digest: &[u8]) -> (r: Result<Message, Error>)
            ensures r is Ok <==> digest@.len() == 32, r is Ok ==> r->Ok_0.digest@ == digest@
        { unimplemented!() }
    }
    impl XOnlyPublicKey {
        #[verifier::external_body]
        pub fn from_slice(data: &[u8]) -> (r: Result<XOnlyPublicKey, Error>)
            ensures r is Ok <==> xonly_valid(data@), r is Ok ==> r->Ok_0.bytes@ == data@
        { unimplemented!() }
        #[verifier::external_body]
        pub fn serialize(&self) -> (r: [u8; 32])
            requires self.bytes@.len() == 32
            ensures r@ == self.bytes@
        { unimplemented!() }
    }
    pub mod schnorr {
        use vstd::prelude::*;
        use super::super::*;
        use super::{Error, Message, XOnlyPublicKey};
        pub struct Signature { pub bytes: Ghost<Seq<u8>> }
        impl Signature {
            #[verifier::external_body]
            pub fn from_slice(data: &[u8]) -> (r: Result<Signature, Error>)
                ensures r is Ok <==> sig_parses(data@), r is Ok ==> r->Ok_0.bytes@ == data@
            { unimplemented!() }
            #[verifier::external_body]
            pub fn serialize(&self) -> (r: [u8; 64])
                requires self.bytes@.len() == 64
                ensures r@ == self.bytes@
            { unimplemented!() }
            #[verifier::external_body]
            pub fn verify(&self, msg: &Message, pubkey: &XOnlyPublicKey) -> (r: Result<(), Error>)
                ensures r is Ok <==> schnorr_verifies(self.bytes@, msg.digest@, pubkey.bytes@)
            { unimplemented!() }
        }
    }
    pub mod hashes {
        pub trait Hash { }
        pub mod sha256 {
            use vstd::prelude::*;
            use super::super::super::*;
            pub struct Hash { pub bytes: [u8; 32] }
            impl Hash {
                #[verifier::external_body]
                pub fn hash(data: &[u8]) -> (r: Hash)
                    ensures r.bytes@ == sha256(data@)
                { unimplemented!() }
                #[verifier::external_body]
                pub fn to_byte_array(self) -> (r: [u8; 32]) ensures r@ == self.bytes@ { unimplemented!() }
                #[verifier::external_body]
                pub fn as_byte_array(&self) -> (r: &[u8; 32]) ensures r@ == self.bytes@ { unimplemented!() }
            }
        }
    }
}
impl From<secp256k1::Error> for Error {
    #[verifier::external_body]
    fn from(e: secp256k1::Error) -> Error { unimplemented!() }
}
