// ---- prelude/eq.rs: std equality on byte slices / Option<&[u8]> is structural (TRUSTED std semantics) ----
use vstd::std_specs::cmp::PartialEqSpec;
pub open spec fn opt_slice_eq(a: Option<&[u8]>, b: Option<&[u8]>) -> bool {
    match (a, b) { (Some(x), Some(y)) => x@ == y@, (None, None) => true, _ => false }
}
#[verifier::external_body]
pub broadcast proof fn axiom_opt_slice_eq(a: Option<&[u8]>, b: Option<&[u8]>)
    ensures #[trigger] a.eq_spec(&b) == opt_slice_eq(a, b)
{ }
// (derivable from vstd's slice eq_spec + extensionality; stated as a broadcast fact for convenience)
#[verifier::external_body]
pub broadcast proof fn axiom_slice_eq(a: &[u8], b: &[u8])
    ensures #[trigger] a.eq_spec(b) == (a@ == b@)
{ }
