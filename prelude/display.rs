// ---- prelude/display.rs: what the repo's `Display` impls write (TRUSTED: `fmt::Formatter` is outside Verus) -- R32
// Each contract is read off a three-line impl in the repo:
//   Pubkey: `self.write_hex(&mut bytes)` (under proof in unit hexwrite) then `write!(f, "{hex}")`
//   Time, Kind: `write!(f, "{}", self.0)`  (std: decimal, no sign, no leading zeros)
//   Tags: `self.as_json()` (under proof in unit tags_json) then `write!(f, "{s}")`
//   &str: itself
#[verifier::external_body]
pub fn v_disp_pubkey(p: Pubkey) -> (r: Vec<u8>) ensures r@ == hex_encode(pk_view(p)) { unimplemented!() }
#[verifier::external_body]
pub fn v_disp_time(t: Time) -> (r: Vec<u8>) ensures r@ == dec_digits(t.0 as nat) { unimplemented!() }
#[verifier::external_body]
pub fn v_disp_kind(k: Kind) -> (r: Vec<u8>) ensures r@ == dec_digits(k.0 as nat) { unimplemented!() }
#[verifier::external_body]
pub fn v_disp_tags(t: &Tags) -> (r: Vec<u8>) requires wf_tags(t.0@), tags_escapable(t.0@) ensures r@ == tags_json(t.0@) { unimplemented!() }
#[verifier::external_body]
pub fn v_disp_str(s: &str) -> (r: Vec<u8>) ensures r@ == s.spec_bytes() { unimplemented!() }
// format!(..) of literal pieces and Display arguments: the String holding their concatenation
#[verifier::external_body]
pub fn v_format_string(ps: &[VPiece]) -> (r: String) ensures string_bytes(r) == pieces_bytes(ps@) { unimplemented!() }
// `String::as_bytes`
pub assume_specification [ String::as_bytes ] (s: &String) -> (r: &[u8]) ensures r@ == string_bytes(*s);
// R28 (str form): `unsafe { std::str::from_utf8_unchecked(E) }`: the &str over exactly those bytes
#[verifier::external_body]
pub fn v_str_from_utf8_unchecked(b: &[u8]) -> (r: &str) ensures r.spec_bytes() == b@ { unimplemented!() }
// `drop(x)`: no observable effect on other values
pub assume_specification<T> [ core::mem::drop::<T> ] (x: T);
