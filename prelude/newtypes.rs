// ---- prelude/newtypes.rs: what `derive`/`derive_more` generate for the newtypes Id, Pubkey, Sig, Kind, Time ----
// (TRUSTED: the derive macros' output is not in the repo's source.  From/Into/Deref/AsRef are the obvious
//  newtype conversions; derived PartialEq/PartialOrd compare the single field.)
use vstd::std_specs::convert::{FromSpecImpl, TryIntoSpecImpl};
use vstd::std_specs::cmp::PartialOrdSpec;
use core::cmp::Ordering;
use std::ops::Deref;

impl FromSpecImpl<u16> for Kind {
    open spec fn obeys_from_spec() -> bool { true }
    open spec fn from_spec(u: u16) -> Kind { Kind(u) }
}
impl From<u16> for Kind { fn from(u: u16) -> (r: Kind) { Kind(u) } }
impl Deref for Kind { type Target = u16; fn deref(&self) -> (r: &u16) ensures *r == self.0 { &self.0 } }
impl AsRef<u16> for Kind { fn as_ref(&self) -> (r: &u16) ensures *r == self.0 { &self.0 } }

impl FromSpecImpl<u64> for Time {
    open spec fn obeys_from_spec() -> bool { true }
    open spec fn from_spec(u: u64) -> Time { Time(u) }
}
impl From<u64> for Time { fn from(u: u64) -> (r: Time) { Time(u) } }
impl Deref for Time { type Target = u64; fn deref(&self) -> (r: &u64) ensures *r == self.0 { &self.0 } }
impl AsRef<u64> for Time { fn as_ref(&self) -> (r: &u64) ensures *r == self.0 { &self.0 } }

impl FromSpecImpl<[u8; 32]> for Id {
    open spec fn obeys_from_spec() -> bool { true }
    open spec fn from_spec(b: [u8; 32]) -> Id { Id(b) }
}
impl From<[u8; 32]> for Id { fn from(b: [u8; 32]) -> (r: Id) { Id(b) } }
impl FromSpecImpl<[u8; 32]> for Pubkey {
    open spec fn obeys_from_spec() -> bool { true }
    open spec fn from_spec(b: [u8; 32]) -> Pubkey { Pubkey(b) }
}
impl From<[u8; 32]> for Pubkey { fn from(b: [u8; 32]) -> (r: Pubkey) { Pubkey(b) } }
impl FromSpecImpl<[u8; 64]> for Sig {
    open spec fn obeys_from_spec() -> bool { true }
    open spec fn from_spec(b: [u8; 64]) -> Sig { Sig(b) }
}
impl From<[u8; 64]> for Sig { fn from(b: [u8; 64]) -> (r: Sig) { Sig(b) } }

pub open spec fn u64_cmp(a: u64, b: u64) -> Ordering {
    if a < b { Ordering::Less } else if a == b { Ordering::Equal } else { Ordering::Greater }
}
#[verifier::external_body]
pub broadcast proof fn axiom_time_ord(a: Time, b: Time)
    ensures <Time as PartialOrdSpec>::obeys_partial_cmp_spec(), #[trigger] a.partial_cmp_spec(&b) == Some(u64_cmp(a.0, b.0))
{ }

// equality of the array newtypes is equality of their byte views
pub open spec fn id_view(a: Id) -> Seq<u8> { a.0@ }
pub open spec fn pk_view(a: Pubkey) -> Seq<u8> { a.0@ }
pub broadcast proof fn lemma_id_eq(a: Id, b: Id)
    ensures #![trigger id_view(a), id_view(b)] (a == b) <==> id_view(a) == id_view(b)
{
    if a.0@ == b.0@ { assert(a.0 =~= b.0); }
}
pub broadcast proof fn lemma_pubkey_eq(a: Pubkey, b: Pubkey)
    ensures #![trigger pk_view(a), pk_view(b)] (a == b) <==> pk_view(a) == pk_view(b)
{
    if a.0@ == b.0@ { assert(a.0 =~= b.0); }
}

// `<&[u8] as TryInto<Id>>::try_into` etc. (defined in id.rs / pubkey.rs through <[u8;N]>::try_from): TRUSTED std
#[verifier::external_body]
pub fn v_slice_to_id(s: &[u8]) -> (r: Id) requires s@.len() == 32 ensures id_view(r) == s@ { unimplemented!() }
#[verifier::external_body]
pub fn v_slice_to_pubkey(s: &[u8]) -> (r: Pubkey) requires s@.len() == 32 ensures pk_view(r) == s@ { unimplemented!() }
#[verifier::external_body]
pub fn v_slice_to_arr32(s: &[u8]) -> (r: [u8; 32]) requires s@.len() == 32 ensures r@ == s@ { unimplemented!() }
