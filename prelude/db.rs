// ---- prelude/db.rs: pocket-db environment (TRUSTED): error types, LMDB (heed) as finite maps with snapshot
// transactions, by assumed contract only.  R10: RwTxn/RoTxn are one stand-in type (heed derefs RwTxn to RoTxn).
pub mod error {
    use vstd::prelude::*;
    use vstd::std_specs::convert::FromSpecImpl;
    pub struct Error { pub inner: InnerError }
    impl std::fmt::Debug for Error { #[verifier::external_body] fn fmt(&self, f: &mut std::fmt::Formatter<'_>) -> std::fmt::Result { Ok(()) } }
    pub enum InnerError {
        Deleted, Duplicate, EndOfInput, General(String), Lmdb, InvalidDelete, Io, Ownership, PocketTypes, Replaced, Scraper, WrongEventKind,
    }
    impl FromSpecImpl<InnerError> for Error {
        open spec fn obeys_from_spec() -> bool { true }
        open spec fn from_spec(e: InnerError) -> Error { Error { inner: e } }
    }
    impl From<InnerError> for Error { fn from(e: InnerError) -> (r: Error) { Error { inner: e } } }
    pub struct HeedError { }
    impl From<HeedError> for Error { #[verifier::external_body] fn from(e: HeedError) -> Error { Error { inner: InnerError::Lmdb } } }
}
use crate::error::{Error, InnerError, HeedError};
use std::marker::PhantomData;

// ---- ghost database state: table id -> (key -> value); Unit-valued tables store 0
pub open spec fn T_I() -> int { 1 }
pub open spec fn T_CI() -> int { 2 }
pub open spec fn T_TC() -> int { 3 }
pub open spec fn T_AC() -> int { 4 }
pub open spec fn T_AKC() -> int { 5 }
pub open spec fn T_ATC() -> int { 6 }
pub open spec fn T_KTC() -> int { 7 }
pub open spec fn T_DELID() -> int { 8 }
pub open spec fn T_DELNADDR() -> int { 9 }
pub type Table = Map<Seq<u8>, u64>;
pub struct Db { pub t: Map<int, Table> }
pub open spec fn db_tab(d: Db, table: int) -> Table { d.t[table] }
pub open spec fn db_wf(d: Db) -> bool { forall|k: int| 1 <= k <= 9 ==> #[trigger] d.t.dom().contains(k) }
pub open spec fn db_put(d: Db, table: int, k: Seq<u8>, v: u64) -> Db { Db { t: d.t.insert(table, d.t[table].insert(k, v)) } }
pub open spec fn db_del(d: Db, table: int, k: Seq<u8>) -> Db { Db { t: d.t.insert(table, d.t[table].remove(k)) } }

// the world outside Rust values: what LMDB has committed and what the event map file holds
//   committed : LMDB's last committed state           map / map_end : bytes of the event map file and its end marker
//   events    : ghost directory of the events appended so far (offset -> bytes), tied to `map` by world_inv
//   file_len  : length of the event map file          flc : the EventStore's cached copy of it (an AtomicUsize)
pub struct World { pub committed: Db, pub map: Seq<u8>, pub map_end: int, pub events: Map<int, Seq<u8>>, pub file_len: int, pub flc: int }

pub struct Bytes { }
pub struct Unit { }
pub struct NativeEndian { }
pub struct U64<E> { pub _e: PhantomData<E> }
pub struct Env { }
pub struct Database<KC, DC> { pub table: Ghost<int>, pub _p: PhantomData<(KC, DC)> }
impl<KC, DC> Clone for Database<KC, DC> { #[verifier::external_body] fn clone(&self) -> (r: Self) ensures r.table == self.table { unimplemented!() } }
impl<KC, DC> Copy for Database<KC, DC> { }

pub struct RwTxn<'a> { pub base: Ghost<Db>, pub cur: Ghost<Db>, pub _p: PhantomData<&'a ()> }
pub type RoTxn<'a> = RwTxn<'a>;

impl<'a> RwTxn<'a> {
    // the ONLY operation that changes the committed state; atomic
    #[verifier::external_body]
    pub fn commit(self, Tracked(w): Tracked<&mut World>) -> (r: Result<(), HeedError>)
        ensures
            r is Ok ==> final(w).committed == self.cur@,
            r is Err ==> final(w).committed == old(w).committed,
            final(w).map == old(w).map, final(w).map_end == old(w).map_end, final(w).events == old(w).events,
            final(w).file_len == old(w).file_len, final(w).flc == old(w).flc,
    { unimplemented!() }
}

// ordered range scans: a snapshot of the entries of one table with lo <= key < hi (or <= hi), ascending by key
pub open spec fn bytes_lt(a: Seq<u8>, b: Seq<u8>) -> bool
    decreases a.len()
{
    if b.len() == 0 { false } else if a.len() == 0 { true }
    else if a[0] != b[0] { a[0] < b[0] } else { bytes_lt(a.subrange(1, a.len() as int), b.subrange(1, b.len() as int)) }
}
pub open spec fn bytes_le(a: Seq<u8>, b: Seq<u8>) -> bool { a == b || bytes_lt(a, b) }
pub struct RoRange<'a, KC, DC> { pub items: Ghost<Seq<(Seq<u8>, u64)>>, pub pos: Ghost<int>, pub _p: PhantomData<&'a (KC, DC)> }
pub type RoIter<'a, KC, DC> = RoRange<'a, KC, DC>;
pub open spec fn range_items_ok(items: Seq<(Seq<u8>, u64)>, tab: Table, lo: Seq<u8>, hi: Seq<u8>, hi_incl: bool) -> bool {
    // exactly the entries in range, each once, ascending
    &&& forall|i: int| 0 <= i < items.len() ==> #[trigger] tab.contains_key(items[i].0) && tab[items[i].0] == items[i].1
            && bytes_le(lo, items[i].0) && (if hi_incl { bytes_le(items[i].0, hi) } else { bytes_lt(items[i].0, hi) })
    &&& forall|i: int, j: int| 0 <= i < j < items.len() ==> bytes_lt(#[trigger] items[i].0, #[trigger] items[j].0)
    &&& forall|k: Seq<u8>| #[trigger] tab.contains_key(k) && bytes_le(lo, k) && (if hi_incl { bytes_le(k, hi) } else { bytes_lt(k, hi) })
            ==> exists|i: int| 0 <= i < items.len() && #[trigger] items[i].0 == k
}
impl<'a> RoRange<'a, Bytes, U64<NativeEndian>> {
    #[verifier::external_body]
    pub fn next(&mut self) -> (r: Option<Result<(&'a [u8], u64), HeedError>>)
        ensures
            final(self).items == old(self).items,
            old(self).pos@ >= old(self).items@.len() ==> r is None && final(self).pos == old(self).pos,
            old(self).pos@ < old(self).items@.len() ==> r is Some && final(self).pos@ == old(self).pos@ + 1,
            (r is Some && r->Some_0 is Ok) ==> r->Some_0->Ok_0.0@ == old(self).items@[old(self).pos@].0
                && r->Some_0->Ok_0.1 == old(self).items@[old(self).pos@].1,
    { unimplemented!() }
}

pub enum VBound<'a> { Included(&'a [u8]), Excluded(&'a [u8]) }

impl Database<Bytes, U64<NativeEndian>> {
    #[verifier::external_body]
    pub fn put(&self, txn: &mut RwTxn<'_>, key: &[u8], data: &u64) -> (r: Result<(), HeedError>)
        ensures
            final(txn).base == old(txn).base,
            r is Ok ==> final(txn).cur@ == db_put(old(txn).cur@, self.table@, key@, *data),
            r is Err ==> final(txn).cur@ == old(txn).cur@,
    { unimplemented!() }
    #[verifier::external_body]
    pub fn delete(&self, txn: &mut RwTxn<'_>, key: &[u8]) -> (r: Result<bool, HeedError>)
        ensures
            final(txn).base == old(txn).base,
            r is Ok ==> final(txn).cur@ == db_del(old(txn).cur@, self.table@, key@)
                && r->Ok_0 == db_tab(old(txn).cur@, self.table@).contains_key(key@),
            r is Err ==> final(txn).cur@ == old(txn).cur@,
    { unimplemented!() }
    #[verifier::external_body]
    pub fn get(&self, txn: &RoTxn<'_>, key: &[u8]) -> (r: Result<Option<u64>, HeedError>)
        ensures
            r is Ok ==> (r->Ok_0 is Some <==> db_tab(txn.cur@, self.table@).contains_key(key@)),
            r is Ok && r->Ok_0 is Some ==> r->Ok_0->Some_0 == db_tab(txn.cur@, self.table@)[key@],
    { unimplemented!() }
}
impl Database<Bytes, Unit> {
    #[verifier::external_body]
    pub fn put(&self, txn: &mut RwTxn<'_>, key: &[u8], data: &()) -> (r: Result<(), HeedError>)
        ensures
            final(txn).base == old(txn).base,
            r is Ok ==> final(txn).cur@ == db_put(old(txn).cur@, self.table@, key@, 0),
            r is Err ==> final(txn).cur@ == old(txn).cur@,
    { unimplemented!() }
    #[verifier::external_body]
    pub fn get(&self, txn: &RoTxn<'_>, key: &[u8]) -> (r: Result<Option<()>, HeedError>)
        ensures
            r is Ok ==> (r->Ok_0 is Some <==> db_tab(txn.cur@, self.table@).contains_key(key@)),
    { unimplemented!() }
}

// std::ops::Bound as used by heed's range()
// (vstd already carries the type specification of core::ops::Bound)
use std::ops::Bound;
pub open spec fn bound_key(b: Bound<&[u8]>) -> Seq<u8> { match b { Bound::Included(k) => k@, Bound::Excluded(k) => k@, Bound::Unbounded => Seq::<u8>::empty() } }
impl Database<Bytes, U64<NativeEndian>> {
    // entries with start <= key < end (Included start, Excluded end), ascending, as of the transaction's view
    #[verifier::external_body]
    pub fn range<'a>(&self, txn: &'a RoTxn<'_>, range: &(Bound<&[u8]>, Bound<&[u8]>)) -> (r: Result<RoRange<'a, Bytes, U64<NativeEndian>>, HeedError>)
        requires range.0 is Included, range.1 is Excluded,
        ensures r is Ok ==> r->Ok_0.pos@ == 0
            && range_items_ok(r->Ok_0.items@, db_tab(txn.cur@, self.table@), bound_key(range.0), bound_key(range.1), false),
    { unimplemented!() }
    #[verifier::external_body]
    pub fn iter<'a>(&self, txn: &'a RoTxn<'_>) -> (r: Result<RoIter<'a, Bytes, U64<NativeEndian>>, HeedError>)
        ensures r is Ok ==> r->Ok_0.pos@ == 0
            && (forall|i: int| 0 <= i < r->Ok_0.items@.len() ==> #[trigger] db_tab(txn.cur@, self.table@).contains_key(r->Ok_0.items@[i].0)
                    && db_tab(txn.cur@, self.table@)[r->Ok_0.items@[i].0] == r->Ok_0.items@[i].1)
            && (forall|k: Seq<u8>| #[trigger] db_tab(txn.cur@, self.table@).contains_key(k) ==> exists|i: int| 0 <= i < r->Ok_0.items@.len() && #[trigger] r->Ok_0.items@[i].0 == k)
            && (forall|i: int, j: int| 0 <= i < j < r->Ok_0.items@.len() ==> bytes_lt(#[trigger] r->Ok_0.items@[i].0, #[trigger] r->Ok_0.items@[j].0)),
    { unimplemented!() }
}

impl<'a> RoRange<'a, Bytes, Unit> {
    #[verifier::external_body]
    pub fn next(&mut self) -> (r: Option<Result<(&'a [u8], ()), HeedError>>)
        ensures
            final(self).items == old(self).items,
            old(self).pos@ >= old(self).items@.len() ==> r is None && final(self).pos == old(self).pos,
            old(self).pos@ < old(self).items@.len() ==> r is Some && final(self).pos@ == old(self).pos@ + 1,
            (r is Some && r->Some_0 is Ok) ==> r->Some_0->Ok_0.0@ == old(self).items@[old(self).pos@].0,
    { unimplemented!() }
}
impl Database<Bytes, Unit> {
    #[verifier::external_body]
    pub fn iter<'a>(&self, txn: &'a RoTxn<'_>) -> (r: Result<RoIter<'a, Bytes, Unit>, HeedError>)
        ensures r is Ok ==> r->Ok_0.pos@ == 0
            && (forall|i: int| 0 <= i < r->Ok_0.items@.len() ==> #[trigger] db_tab(txn.cur@, self.table@).contains_key(r->Ok_0.items@[i].0))
            && (forall|k: Seq<u8>| #[trigger] db_tab(txn.cur@, self.table@).contains_key(k) ==> exists|i: int| 0 <= i < r->Ok_0.items@.len() && #[trigger] r->Ok_0.items@[i].0 == k),
    { unimplemented!() }
}
