// ---- prelude/bytes.rs: integer <-> byte-array conversions (TRUSTED: target is little-endian x86_64) ----
global size_of usize == 8;

pub open spec fn ne16(s: Seq<u8>) -> u16 { (s[0] as u16) | ((s[1] as u16) << 8) }
pub open spec fn bytes16(x: u16) -> Seq<u8> { seq![(x & 0xff) as u8, (x >> 8) as u8] }
pub open spec fn ne32(s: Seq<u8>) -> u32 {
    (s[0] as u32) | ((s[1] as u32) << 8) | ((s[2] as u32) << 16) | ((s[3] as u32) << 24)
}
pub open spec fn bytes32(x: u32) -> Seq<u8> {
    seq![(x & 0xff) as u8, ((x >> 8) & 0xff) as u8, ((x >> 16) & 0xff) as u8, (x >> 24) as u8]
}
pub open spec fn ne64(s: Seq<u8>) -> u64 {
    (s[0] as u64) | ((s[1] as u64) << 8) | ((s[2] as u64) << 16) | ((s[3] as u64) << 24)
    | ((s[4] as u64) << 32) | ((s[5] as u64) << 40) | ((s[6] as u64) << 48) | ((s[7] as u64) << 56)
}
pub open spec fn bytes64(x: u64) -> Seq<u8> {
    seq![(x & 0xff) as u8, ((x >> 8) & 0xff) as u8, ((x >> 16) & 0xff) as u8, ((x >> 24) & 0xff) as u8,
         ((x >> 32) & 0xff) as u8, ((x >> 40) & 0xff) as u8, ((x >> 48) & 0xff) as u8, (x >> 56) as u8]
}
pub open spec fn be64(x: u64) -> Seq<u8> {
    seq![(x >> 56) as u8, ((x >> 48) & 0xff) as u8, ((x >> 40) & 0xff) as u8, ((x >> 32) & 0xff) as u8,
         ((x >> 24) & 0xff) as u8, ((x >> 16) & 0xff) as u8, ((x >> 8) & 0xff) as u8, (x & 0xff) as u8]
}
pub open spec fn be16(x: u16) -> Seq<u8> { seq![(x >> 8) as u8, (x & 0xff) as u8] }
pub open spec fn from_be16(s: Seq<u8>) -> u16 { ((s[0] as u16) << 8) | (s[1] as u16) }

pub broadcast proof fn lemma_ne16_bytes16(x: u16)
    ensures #[trigger] ne16(bytes16(x)) == x
{
    assert(((x & 0xff) as u8 as u16) | (((x >> 8) as u8 as u16) << 8) == x) by (bit_vector);
}
pub broadcast proof fn lemma_bytes16_ne16(s: Seq<u8>)
    requires s.len() == 2
    ensures #[trigger] bytes16(ne16(s)) =~= s
{
    let a = s[0]; let b = s[1];
    assert((((a as u16) | ((b as u16) << 8)) & 0xff) as u8 == a) by (bit_vector);
    assert((((a as u16) | ((b as u16) << 8)) >> 8) as u8 == b) by (bit_vector);
}
pub broadcast proof fn lemma_ne32_bytes32(x: u32)
    ensures #[trigger] ne32(bytes32(x)) == x
{
    assert(((x & 0xff) as u8 as u32) | ((((x >> 8) & 0xff) as u8 as u32) << 8)
        | ((((x >> 16) & 0xff) as u8 as u32) << 16) | (((x >> 24) as u8 as u32) << 24) == x) by (bit_vector);
}
pub broadcast proof fn lemma_ne64_bytes64(x: u64)
    ensures #[trigger] ne64(bytes64(x)) == x
{
    assert(((x & 0xff) as u8 as u64) | ((((x >> 8) & 0xff) as u8 as u64) << 8)
        | ((((x >> 16) & 0xff) as u8 as u64) << 16) | ((((x >> 24) & 0xff) as u8 as u64) << 24)
        | ((((x >> 32) & 0xff) as u8 as u64) << 32) | ((((x >> 40) & 0xff) as u8 as u64) << 40)
        | ((((x >> 48) & 0xff) as u8 as u64) << 48) | (((x >> 56) as u8 as u64) << 56) == x) by (bit_vector);
}
pub broadcast proof fn lemma_from_be16(x: u16)
    ensures #[trigger] from_be16(be16(x)) == x
{
    assert(((((x >> 8) as u8) as u16) << 8) | (((x & 0xff) as u8) as u16) == x) by (bit_vector);
}

#[verifier::external_body]
pub fn v_u16_from_ne(s: &[u8]) -> (r: u16)
    requires s.len() == 2
    ensures r == ne16(s@)
{ u16::from_ne_bytes(s.try_into().unwrap()) }
#[verifier::external_body]
pub fn v_u32_from_ne(s: &[u8]) -> (r: u32)
    requires s.len() == 4
    ensures r == ne32(s@)
{ u32::from_ne_bytes(s.try_into().unwrap()) }
#[verifier::external_body]
pub fn v_u64_from_ne(s: &[u8]) -> (r: u64)
    requires s.len() == 8
    ensures r == ne64(s@)
{ u64::from_ne_bytes(s.try_into().unwrap()) }
#[verifier::external_body]
pub fn v_u16_from_be(s: &[u8]) -> (r: u16)
    requires s.len() == 2
    ensures r == from_be16(s@)
{ u16::from_be_bytes(s.try_into().unwrap()) }

pub trait VToBytes16 { fn v_to_ne_bytes(self) -> [u8; 2]; fn v_to_be_bytes(self) -> [u8; 2]; }
impl VToBytes16 for u16 {
    #[verifier::external_body]
    fn v_to_ne_bytes(self) -> (r: [u8; 2]) ensures r@ == bytes16(self) { self.to_ne_bytes() }
    #[verifier::external_body]
    fn v_to_be_bytes(self) -> (r: [u8; 2]) ensures r@ == be16(self) { self.to_be_bytes() }
}
pub trait VToBytes32 { fn v_to_ne_bytes(self) -> [u8; 4]; }
impl VToBytes32 for u32 {
    #[verifier::external_body]
    fn v_to_ne_bytes(self) -> (r: [u8; 4]) ensures r@ == bytes32(self) { self.to_ne_bytes() }
}
pub trait VToBytes64 { fn v_to_ne_bytes(self) -> [u8; 8]; fn v_to_be_bytes(self) -> [u8; 8]; }
impl VToBytes64 for u64 {
    #[verifier::external_body]
    fn v_to_ne_bytes(self) -> (r: [u8; 8]) ensures r@ == bytes64(self) { self.to_ne_bytes() }
    #[verifier::external_body]
    fn v_to_be_bytes(self) -> (r: [u8; 8]) ensures r@ == be64(self) { self.to_be_bytes() }
}

pub assume_specification<T: PartialEq> [ <[T]>::contains ] (s: &[T], x: &T) -> (r: bool)
    ensures r == s@.contains(*x);

// Rust reference: a slice never spans more than isize::MAX bytes.
#[verifier::external_body]
pub proof fn axiom_slice_max(s: &[u8]) ensures s@.len() <= 0x7fff_ffff_ffff_ffff { }

// common u8 classification helpers of std (so that code starting to use them stays within reach)
pub assume_specification [ u8::is_ascii_lowercase ] (c: &u8) -> (r: bool) ensures r == (0x61 <= *c <= 0x7a);
pub assume_specification [ u8::is_ascii_uppercase ] (c: &u8) -> (r: bool) ensures r == (0x41 <= *c <= 0x5a);
pub assume_specification [ u8::is_ascii_alphabetic ] (c: &u8) -> (r: bool) ensures r == ((0x41 <= *c <= 0x5a) || (0x61 <= *c <= 0x7a));
pub assume_specification [ u8::is_ascii_digit ] (c: &u8) -> (r: bool) ensures r == (0x30 <= *c <= 0x39);
pub assume_specification [ u8::is_ascii_alphanumeric ] (c: &u8) -> (r: bool) ensures r == ((0x30 <= *c <= 0x39) || (0x41 <= *c <= 0x5a) || (0x61 <= *c <= 0x7a));
pub assume_specification [ u8::is_ascii ] (c: &u8) -> (r: bool) ensures r == (*c < 0x80);
pub assume_specification [ u8::to_ascii_lowercase ] (c: &u8) -> (r: u8)
    ensures r == (if 65 <= *c <= 90 { (*c + 32) as u8 } else { *c });
pub assume_specification [ u8::to_ascii_uppercase ] (c: &u8) -> (r: u8)
    ensures r == (if 97 <= *c <= 122 { (*c - 32) as u8 } else { *c });
