// ---- prelude/drain.rs: `Vec::drain(..)` over the whole vector (TRUSTED std) -- target of R35
// yields exactly the elements the vector held, in order, each once; the vector is left empty
pub struct VDrain<T> { pub items: Ghost<Seq<T>>, pub pos: Ghost<int>, pub _p: core::marker::PhantomData<T> }
impl<T> VDrain<T> {
    #[verifier::external_body]
    pub fn next(&mut self) -> (r: Option<T>)
        ensures final(self).items == old(self).items,
            old(self).pos@ >= old(self).items@.len() ==> r is None && final(self).pos == old(self).pos,
            old(self).pos@ < old(self).items@.len() ==> r == Some(old(self).items@[old(self).pos@]) && final(self).pos@ == old(self).pos@ + 1,
    { unimplemented!() }
}
#[verifier::external_body]
pub fn v_drain_all<T>(v: &mut Vec<T>) -> (r: VDrain<T>)
    ensures r.items@ == old(v)@, r.pos@ == 0, final(v)@.len() == 0
{ unimplemented!() }
